"""C09 - every dataloader worker gets its own reproducible augmentation stream.

Proof side: coq/C07 (RngGraph.v + ModelC09.v + ProofsC09.v over the tables regenerated from the sources on every
run; PropertyC09.v).  Dynamic side (this module): workers are simulated exactly as the property's observe_at says -
copy.deepcopy of the dataset (what fork / pickle hands a worker), np.random.seed(worker seed),
dataset.worker_init_fn(rank) - for two different worker seeds and once more for the first seed; for every generator
slot reachable from the dataset (transforms at any depth inside the sample wrappers, per-view transforms, registered
collators) the identity of the generator object and the first 64 draws of a copy of it are recorded before and after.
A fourth copy is instrumented (inherited generators wrapped into spies, np.random.default_rng patched so that the k-th
generator created by the hook is tagged Wrk k) and then asked for samples: that is the case handed to the Coq model.
Every simulated worker also serves samples and runs every collator registered on the root on a batch of real samples;
the same worker seed has to reproduce those outputs (this covers the wrappers' own draws - MUGS / mix wrapper without
seed - which have no generator slot).  Launch cases run the same seeded workers in two fresh interpreters with
different PYTHONHASHSEED values and compare all of it.
Worker-init HISTORIES: before the worker copies are made the hook runs 0 / 1 / 2 times on the parent object (a manual
call for num_workers = 0, an earlier launch on the same dataset), and inside a worker copy it may run once more BEFORE
the run with the worker's seed (with another seed): the last seed has to win, whatever ran before.  What
torch.utils.data.get_worker_info() answers in the simulated worker is part of the case: None (manual call) or
(id, num_workers) for num_workers in {1, 2, 3} - the hook of the transforms consults it.
Real DataLoader cases (both tiers; quick: one batch of stacks per worker count in {1, 2, 3}, all stacks of a batch
in ONE loader launch): DataLoader(num_workers=n, worker_init_fn=<hook of every stack>) whose probe dataset returns, from
inside the worker process, the first draws of every member generator, served samples and collated batches; two
launches with different base seeds must differ in every member stream, two with equal seeds must agree in everything.
"""
import copy
import traceback

from . import rnglive as L
from . import rngstack as K
from . import translate_rng as T
from .common import coq, Nat, Raw

ID = "C09"
COQ_FILES = ["C07/RngGraph.v", "C07/gen/RngTable.v", "C07/Check.v", "C07/Proofs.v", "C07/TableProofs.v",
             "C07/ModelC08.v", "C07/ProofsC08.v", "C07/ModelC09.v", "C07/CheckC09.v", "C07/ProofsC09.v",
             "C07/TableProofsC09.v", "C07/PropertyC09.v"]
COQ_PRELUDE = """From Coq Require Import ZArith List Bool String.
Import ListNotations.
From KD Require Import C07.RngGraph C07.gen.RngTable C07.Check C07.ModelC08 C07.ModelC09 C07.CheckC09.
Open Scope string_scope.
"""
COQ_CHECK = "CheckC09.check"
COQ_CASE_TYPE = "CheckC09.case_t"
SHARD = 60
TRUSTED = L.TRUSTED_COMMON + [
    "cross-launch comparison: two fresh interpreters (python -m harness.c09 --launch-child, PYTHONHASHSEED from the "
    "case, both different from the harness's own) plus the harness process itself run the same seeded worker "
    "simulations without spies; the records (first 8 draws of every member generator, served samples, batches collated "
    "by the registered collators) must be equal; exception texts are dropped (they may hold addresses)",
    "the collators registered on the root are called as collator.collate([x, one-hot class], 'x class', ctx) on batches "
    "of 4 real samples of the stack (multi-view stacks: list of stacked views; PIL stacks: synthetic tensors); "
    "KDIjepaMaskCollator's shared iteration counter is reset before each call",
    "harness/rngstack.py: live extraction of the dataset stack (class that defines worker_init_fn, wrapper transform "
    "fields through vars(), registered collators), patched np.random.default_rng (k-th generator created during "
    "worker_init_fn = Wrk k)",
    "copy.deepcopy stands for what a worker process receives (fork copy / pickle round trip); np.random.seed(s) stands "
    "for the DataLoader's per-worker seeding of the global NumPy RNG; torch.utils.data.get_worker_info() is mocked by "
    "setting torch.utils.data._utils.worker._worker_info to a WorkerInfo(id, num_workers, seed, dataset) (what "
    "_worker_loop does); real DataLoader runs (fork start method) for num_workers 1, 2, 3 are part of BOTH tiers",
    "translate_rng.transform_hook_shape / kdwrapper_hook_ok (shape of KDTransform.worker_init_fn and "
    "KDWrapper.worker_init_fn: unconditional re-seed, no state) are syntactic, validated by the negative self-test "
    "translate_rng.hook_selftest (20 synthetic bodies) on every run",
    "differently seeded NumPy generators give unrelated streams, and np.random.randint after np.random.seed(s) is a "
    "function of s: NumPy's properties (observed on the first 64 draws of every member generator, not proved)",
]
ASSUMPTIONS = [
    "unseeded wrappers (seed=None); collators registered on the root dataset; a collator handed directly to "
    "InterleavedSampler / DataLoader is not reachable from the dataset and outside the claim (TODO.md of the repo "
    "says the same)",
    "dataset stacks are trees: no transform / collator instance is shared between two places; the ONE exception that is "
    "generated: main and interleaved datasets of an _InterleavedConcatDataset over one shared ROOT object under "
    "different wrapper stacks (with collators on that shared root the case is judged by the Python oracle only, the "
    "Coq tree model is not evaluated on it)",
    "the wrappers' own draws without a seed (MUGSMultiViewWrapper, KDMixWrapper: GlobalRng = the process-global NumPy "
    "RNG) count as worker-derived because the DataLoader seeds numpy / torch / random of every worker process from "
    "base_seed + worker_id (torch.utils.data._utils.worker._worker_loop; trusted, exercised by the thorough tier's real "
    "DataLoader runs); OS entropy (default_rng(None)) does not",
    "the same worker seed reproduces the same stream is also required ACROSS interpreter launches (restart / resume / "
    "spawned workers): PYTHONHASHSEED, object addresses and the like must not enter a stream",
]
ALLOWED_AXIOMS = []
RULE = ("stacks: root (tensor or PIL data, 0-2 registered collators) under 1-4 layers of unseeded X/Y/Target/Source "
        "transform wrappers over random transform trees, KDMultiViewWrapper (1-3 per-view trees), BYOL / minaug / MUGS "
        "multi-view wrappers, SemsegTransformWrapper, KDMixWrapper without seed (bare, above / below transform wrappers, "
        "below a multi-view wrapper), subset / shuffle / repeat / label-smoothing wrappers, KDConcatDataset "
        "of sub-stacks, under ModeWrapper or _InterleavedConcatDataset of ModeWrappers (own roots, or - ~8% of the random "
        "stacks plus 10 directed cases - 2-3 sub-stacks with DIFFERENT stochastic wrapper stacks over ONE shared root "
        "object, hook entered through the concat dataset); parent history (warm-up requests, "
        "0-2 earlier runs of worker_init_fn on the parent object with other global seeds), 2 worker seeds + "
        "repeat (worker seeds 0 / 1 in ~12%, parent seed 0 in half of the cases), 0-2 earlier runs of the hook inside "
        "the worker copy with other seeds (differently many for the repeat: the last seed must win), "
        "get_worker_info() = None or (id, num_workers in 1..3), rank = id; real DataLoader(num_workers = 1, 2, 3) "
        "batches in both tiers (3 launches each: base seeds a, b, a); per worker: member "
        "streams, served samples, every registered collator called on a real batch; one (quick) / three (thorough, 80 "
        "stacks each) cross-launch cases: the same seeded workers in two fresh interpreters with different "
        "PYTHONHASHSEED; non-trivial = at least one generator slot was re-seeded and a re-seeded generator drew; "
        "distinct by (stack signature, number of slots)")
N_STREAM = 64


def pre_build():
    T.regenerate()


# sample wrapper classes with stochastic parts (called transform fields / own draws) the generator builds stacks of;
# TransformWrapperBase is the abstract base, ImagenetNoaugXTransformWrapper a deterministic pipeline
GENERATED_WRAPPERS = set(K.X_WRAPPERS) | {"KDMultiViewWrapper", "ByolMultiViewWrapper", "ImagenetMinaugMultiViewWrapper",
                                          "MUGSMultiViewWrapper", "ImagenetMinaugXTransformWrapper", "SemsegTransformWrapper",
                                          "KDMixWrapper"}
NO_CASES = {"TransformWrapperBase", "ImagenetNoaugXTransformWrapper"}


def unlisted_wrappers(info):
    """fail closed: a sample wrapper class with called transform fields or draws of its own that the generator does
    not know"""
    return [d["name"] for d in info["wrappers"]
            if (d["calls"] or d["local_u"] or d["local"]) and d["name"] not in GENERATED_WRAPPERS and d["name"] not in NO_CASES]


# ---------------------------------------------------------------------------
# case generation
# ---------------------------------------------------------------------------
def has_class(spec, name):
    return spec["c"] == name or any(has_class(k, name) for k in spec.get("k", []))


def tree(rng, S, no_sched=False):
    for _ in range(50):
        t = L.gen_tree(rng, rng.choice([1, 2, 2, 3]), S)
        if t["c"] == L.FOREIGN:
            t = {"c": "KDComposeTransform", "k": [t]}
        if no_sched and has_class(t, "KDScheduledTransform"):
            continue
        return t
    return {"c": "KDRandomHorizontalFlip", "a": 0}


def gen_inner(rng, depth=0, no_sched=False):
    S = rng.choice([16, 16, 8])
    N = rng.choice([4, 6, 8])
    fam = rng.choice(["x", "x", "x", "mv", "mv", "pil", "pil", "semseg", "plain", "mix", "mix"])
    cols = []
    for _ in range(rng.choice([0, 0, 1, 1, 2])):
        cols.append({"c": rng.choice(["KDMixCollator", "KDMixCollator", "KDDinoMaskCollator", "KDIjepaMaskCollator",
                                      "PadSequencesCollator"])})
    layers = []
    kind = "img"
    n = N

    def maybe_index(p=0.4):
        nonlocal n
        if rng.random() < p:
            k = rng.choice(["SubsetWrapper", "ShuffleWrapper", "RepeatWrapper", "KDSubset"])
            if k in ("SubsetWrapper", "KDSubset"):
                m = rng.randrange(2, n + 2)
                layers.append({"w": k, "idx": [rng.randrange(n) for _ in range(m)]})
                n = m
            elif k == "ShuffleWrapper":
                layers.append({"w": k, "seed": rng.choice([0, rng.randrange(100)])})
            else:
                layers.append({"w": k, "r": 2})
                n *= 2

    mode = "x"
    maybe_index()
    if fam == "pil":
        kind, S = "pil", 32
        w = rng.choice(["ByolMultiViewWrapper", "ImagenetMinaugMultiViewWrapper", "MUGSMultiViewWrapper",
                        "ImagenetMinaugXTransformWrapper", "KDMultiViewWrapper"])
        if w == "KDMultiViewWrapper":
            cfg = [[rng.choice([1, 2]), {"c": rng.choice(["BYOLTransform0", "BYOLTransform1", "MUGSStrongLocalTransform",
                                                         "ImagenetMinaugTransform"]), "a": 0}]
                   for _ in range(rng.choice([1, 2, 3]))]
            layers.append({"w": w, "cfg": cfg})
        else:
            layers.append({"w": w, "n": rng.choice([1, 2]), "nloc": rng.choice([1, 2])})
        mode = rng.choice(["x", "x class"])
    elif fam == "semseg":
        ts = []
        for _ in range(rng.choice([1, 2, 3])):
            if rng.random() < 0.65:
                c = rng.choice(["KDSemsegRandomHorizontalFlip", "KDSemsegRandomResize", "KDSemsegRandomCrop"])
                ts.append({"c": c, "a": rng.randrange(len(L.REG[c]))})
            else:
                c = rng.choice(["KDAdditiveGaussianNoise", "KDRandomColorJitter", "KDRandomGrayscale", "KDRandomSolarize"])
                opts = [i for i, (k_, _) in enumerate(L.REG[c]) if k_ == "img"]
                t = {"c": c, "a": rng.choice(opts)}
                if rng.random() < 0.4:
                    t = {"c": rng.choice(["KDComposeTransform", "KDRandomApply"]), "a": 1, "k": [t]}
                ts.append(t)
        layers.append({"w": "SemsegTransformWrapper", "ts": ts})
        mode = rng.choice(["x semseg", "x"])
    elif fam == "mv":
        cfg = [[rng.choice([1, 1, 2]), tree(rng, S, no_sched)] for _ in range(rng.choice([1, 2, 3]))]
        layers.append({"w": "KDMultiViewWrapper", "cfg": cfg})
        maybe_index(0.3)
        mode = rng.choice(["x", "x class"])
    elif fam == "x":
        for _ in range(rng.choice([1, 1, 2, 3])):
            w = rng.choice(["XTransformWrapper"] * 3 + ["YTransformWrapper", "TargetTransformWrapper", "SourceTransformWrapper"])
            layers.append({"w": w, "t": tree(rng, S, no_sched)})
            if rng.random() < 0.25 and not any(l["w"] == "LabelSmoothingWrapper" for l in layers):
                layers.append({"w": "LabelSmoothingWrapper"})
            maybe_index(0.3)
        items = [K.X_WRAPPERS[l["w"]] for l in layers if l["w"] in K.X_WRAPPERS]
        mode = " ".join(dict.fromkeys(items + (["class"] if rng.random() < 0.5 else [])))
    elif fam == "mix":
        # a sample-level mix wrapper WITHOUT seed: its own draws (apply / partner / lambda) must come from a stream the
        # worker's seed determines
        if rng.random() < 0.5:
            t = tree(rng, S, no_sched)
            while has_class(t, "KDRandomGrayscale") or has_class(t, "KDGrayscale"):   # (expanded views refuse the in-place mixup)
                t = tree(rng, S, no_sched)
            layers.append({"w": "XTransformWrapper", "t": t})
        layers.append({"w": "KDMixWrapper", "p": rng.choice([0.5, 1.0]), "alpha": rng.choice([0.4, 1.0])})
        r = rng.random()
        if r < 0.3:
            layers.append({"w": "XTransformWrapper", "t": tree(rng, S, no_sched)})
        elif r < 0.5:
            layers.append({"w": "KDMultiViewWrapper", "cfg": [[rng.choice([1, 2]), tree(rng, S, no_sched)]]})
        mode = "x" if layers[-1]["w"] == "KDMultiViewWrapper" else rng.choice(["x class", "x", "class x"])
    else:
        if rng.random() < 0.5:
            layers.append({"w": "LabelSmoothingWrapper"})
        mode = rng.choice(["x", "x class"])
    spec = {"root": {"kind": kind, "N": N, "S": S, "col": cols}, "layers": layers, "mode": mode}
    if depth == 0 and fam not in ("semseg", "mix") and rng.random() < 0.2:
        # KDConcatDataset of this stack and one or two more with the same item kinds
        others = []
        for _ in range(rng.choice([1, 2])):
            o = gen_inner(rng, depth + 1, no_sched)
            while "semseg" in o["mode"] or any(l["w"] == "KDMixWrapper" for l in o["layers"]):
                o = gen_inner(rng, depth + 1, no_sched)
            others.append(o)
        spec["layers"] = layers + [{"w": "concat", "others": others}]
        spec["mode"] = "x"
    return spec


def shared_root_spec(rng, no_sched=False):
    """an InterleavedSampler's dataset whose main and interleaved datasets share ONE root object under DIFFERENT
    stochastic wrapper stacks (2-3 sub-stacks; sub-stacks with a concat layer bring further roots of their own)"""
    first = gen_inner(rng, 0, no_sched)
    subs = [first]
    for _ in range(rng.choice([1, 1, 2])):
        o = None
        for _ in range(60):
            c = gen_inner(rng, 0, no_sched)
            if all(c["root"][k] == first["root"][k] for k in ("kind", "N", "S")) and c["layers"] != first["layers"]:
                o = c
                break
        if o is None:
            # same data, one more stochastic layer on top of the first stack's layers (index layers keep their range)
            if first["root"]["kind"] == "pil":
                top = {"w": "XTransformWrapper", "t": {"c": "KDComposeTransform", "k": [{"c": "KDRandAugment", "a": 0}]}}
                o = {**first, "layers": [top], "mode": "x"}
            else:
                o = {**first, "layers": [{"w": "XTransformWrapper", "t": tree(rng, first["root"]["S"], no_sched)}], "mode": "x"}
        subs.append({**o, "root": first["root"]})
    return {"interleaved": subs, "share_root": True}


def gen_spec(rng, no_sched=False):
    r = rng.random()
    if r < 0.08:
        return shared_root_spec(rng, no_sched)
    if r < 0.2:
        return {"interleaved": [gen_inner(rng, 0, no_sched) for _ in range(rng.choice([1, 2, 3]))]}
    return gen_inner(rng, 0, no_sched)


def total_len(spec):
    if "interleaved" in spec:
        return sum(K.stack_len(s) for s in spec["interleaved"])
    return K.stack_len(spec)


def spec_has_sched(spec):
    import json
    return "KDScheduledTransform" in json.dumps(spec)


def pick_ws(rng):
    """worker seeds: 0 and 1 (falsy / tiny) now and then, otherwise anything below 2^31 - 1"""
    r = rng.random()
    return 0 if r < 0.08 else 1 if r < 0.12 else rng.randrange(2 ** 31 - 1)


def pick_wi(rng):
    """what torch.utils.data.get_worker_info() answers inside the simulated worker: None (main process / manual call of
    the hook) or [id, num_workers] as in a worker of DataLoader(num_workers = 1, 2, 3)"""
    if rng.random() < 0.3:
        return None
    nw = rng.choice([1, 1, 2, 3])
    return [rng.randrange(nw), nw]


def _other_seed(rng, taken):
    while True:
        v = rng.choice([0, 1, rng.randrange(10 ** 6), rng.randrange(2 ** 31 - 1)])
        if v not in taken:
            taken.add(v)
            return v


def mk_case(rng, spec, wi="pick", nph=None, wh=None):
    n = total_len(spec)
    # (the parent's global seed differs from the worker seeds: with equal seeds a worker legitimately re-creates the
    # generators the parent created, which is not what "still the inherited copy" is about; the same holds for the
    # seeds of earlier runs of the hook)
    ga = rng.choice([0, rng.randrange(10 ** 6)])
    ws1 = pick_ws(rng)
    while ws1 == ga:
        ws1 = pick_ws(rng)
    ws2 = pick_ws(rng)
    while ws2 in (ws1, ga):
        ws2 = pick_ws(rng)
    if wi == "pick":
        wi = pick_wi(rng)
    taken = {ga, ws1, ws2}
    # worker-init histories.  phist: global seeds of earlier runs of the hook ON THE PARENT OBJECT (before the worker
    # copies are made).  wh = [pre1, pre2, pre1b]: seeds of earlier runs of the hook INSIDE the copies of the first
    # worker, the second worker and the repeat of the first (the second starts with the FIRST worker's seed: if the
    # first run won, the two workers would replay one another; the repeat has a different history than the first)
    if nph is None:
        r = rng.random()
        nph = 0 if r < 0.55 else 1 if r < 0.85 else 2
    phist = [_other_seed(rng, taken) for _ in range(nph)]
    if wh is None:
        r = rng.random()
        wh = [0, 0, 0] if r < 0.6 else [0, 1, 1] if r < 0.75 else [1, 1, 0] if r < 0.9 else [1, 0, 2]
    pre = [[_other_seed(rng, taken) for _ in range(wh[0])], [ws1] * wh[1], [_other_seed(rng, taken) for _ in range(wh[2])]]
    return {"kind": "sim", "spec": spec, "ga": ga, "ws1": ws1,
            "ws2": ws2, "rank": wi[0] if wi else rng.randrange(4), "wi": wi, "phist": phist, "wh": pre,
            "warm": [rng.randrange(n) for _ in range(rng.choice([0, 1, 3]))],
            "probe": sorted({0, n - 1} | {rng.randrange(n) for _ in range(4)})}


def directed_cases(rng, info):
    out = []
    root = lambda kind="img", col=(): {"kind": kind, "N": 6, "S": 32 if kind == "pil" else 16, "col": [dict(c=c) for c in col]}  # noqa
    leaf = lambda: {"c": "KDRandomCrop", "a": 0}  # noqa
    # every wrapper class with transform fields, alone, with every container as the direct transform
    for cont in L.CONTAINERS:
        t = {"c": cont, "a": 1, "k": [leaf()] if cont not in ("KDComposeTransform", "KDTransformChoice") else [leaf(), {"c": "KDRandomHorizontalFlip", "a": 0}]}
        for w in K.X_WRAPPERS:
            out.append(mk_case(rng, {"root": root(), "layers": [{"w": w, "t": t}], "mode": K.X_WRAPPERS[w]}))
        out.append(mk_case(rng, {"root": root(), "layers": [{"w": "KDMultiViewWrapper", "cfg": [[2, t], [1, leaf()]]}], "mode": "x"}))
        t2 = {"c": cont, "a": 1, "k": [{"c": "KDAdditiveGaussianNoise", "a": 0}] * (2 if cont in ("KDComposeTransform", "KDTransformChoice") else 1)}
        if cont != "PatchwiseTransform":
            out.append(mk_case(rng, {"root": root(), "layers": [{"w": "SemsegTransformWrapper",
                                                                 "ts": [{"c": "KDSemsegRandomHorizontalFlip", "a": 0}, t2,
                                                                        {"c": "KDSemsegRandomCrop", "a": 0}]}], "mode": "x semseg"}))
    for w in ("ByolMultiViewWrapper", "ImagenetMinaugMultiViewWrapper", "MUGSMultiViewWrapper", "ImagenetMinaugXTransformWrapper"):
        out.append(mk_case(rng, {"root": root("pil"), "layers": [{"w": w, "n": 2, "nloc": 2}], "mode": "x"}))
    # every forwarding dataset class between the top and a stochastic wrapper; collators on the root
    x = {"w": "XTransformWrapper", "t": leaf()}
    for idxl in ({"w": "KDSubset", "idx": [2, 1, 1]}, {"w": "SubsetWrapper", "idx": [1, 0]}, {"w": "ShuffleWrapper", "seed": 3},
                 {"w": "RepeatWrapper", "r": 2}, {"w": "LabelSmoothingWrapper"}):
        out.append(mk_case(rng, {"root": root(col=("KDMixCollator",)), "layers": [x, idxl], "mode": "x"}))
        out.append(mk_case(rng, {"root": root(col=("KDMixCollator", "KDDinoMaskCollator")), "layers": [idxl, x, idxl], "mode": "x"}))
    sub = {"root": root(col=("KDIjepaMaskCollator",)), "layers": [x], "mode": "x"}
    out.append(mk_case(rng, {"root": root(), "layers": [x, {"w": "concat", "others": [sub, sub]}], "mode": "x"}))
    out.append(mk_case(rng, {"interleaved": [sub, {"root": root(col=("KDMixCollator", "PadSequencesCollator")), "layers": [x, x], "mode": "x"}]}))
    # main + interleaved datasets of one InterleavedSampler over ONE root object, different stochastic wrapper stacks
    # (transform wrapper / other transform wrapper / multi-view / semseg), entered through the concat dataset's hook
    flipx = {"w": "XTransformWrapper", "t": {"c": "KDComposeTransform", "k": [{"c": "KDRandomHorizontalFlip", "a": 0}, leaf()]}}
    mv = {"w": "KDMultiViewWrapper", "cfg": [[2, leaf()], [1, {"c": "KDRandomHorizontalFlip", "a": 0}]]}
    sem = {"w": "SemsegTransformWrapper", "ts": [{"c": "KDSemsegRandomHorizontalFlip", "a": 0}, {"c": "KDSemsegRandomCrop", "a": 0}]}
    for col in ((), ("KDMixCollator",)):
        for stacks in (([x], [flipx]), ([x], [mv]), ([flipx, {"w": "SubsetWrapper", "idx": [1, 0, 2]}], [x], [sem]), ([], [x]), ([x], [])):
            r_ = root(col=col)
            out.append(mk_case(rng, {"interleaved": [{"root": r_, "layers": list(ls), "mode": "x"} for ls in stacks],
                                     "share_root": True}))
    for c in ("KDMixCollator", "KDDinoMaskCollator", "KDIjepaMaskCollator", "PadSequencesCollator"):
        out.append(mk_case(rng, {"root": root(col=(c,)), "layers": [], "mode": "x class"}))
        out.append(mk_case(rng, {"root": root(col=(c, "KDMixCollator")), "layers": [x], "mode": "x class"}))
    out.append(mk_case(rng, {"root": root(col=("KDDinoMaskCollator",)), "layers": [{"w": "KDMultiViewWrapper", "cfg": [[2, leaf()]]}], "mode": "x"}))
    # worker-init histories and every answer of get_worker_info() on the basic shapes: transform wrapper (flat, nested),
    # multi-view, semseg, two wrapper layers over a root with collators, a bare root with a collator
    comp = {"c": "KDComposeTransform", "k": [leaf(), {"c": "KDRandomApply", "a": 1, "k": [{"c": "KDRandomHorizontalFlip", "a": 0}]}]}
    shapes = [({"root": root(), "layers": [x], "mode": "x"}),
              ({"root": root(col=("KDMixCollator",)), "layers": [{"w": "XTransformWrapper", "t": comp}, {"w": "SubsetWrapper", "idx": [1, 0, 2]},
                                                                 {"w": "YTransformWrapper", "t": leaf()}], "mode": "x y"}),
              ({"root": root(col=("KDDinoMaskCollator",)), "layers": [{"w": "KDMultiViewWrapper", "cfg": [[2, comp], [1, leaf()]]}], "mode": "x"}),
              ({"root": root(), "layers": [{"w": "SemsegTransformWrapper", "ts": [{"c": "KDSemsegRandomHorizontalFlip", "a": 0},
                                                                                  {"c": "KDSemsegRandomCrop", "a": 0}]}], "mode": "x semseg"}),
              ({"root": root(col=("KDMixCollator", "KDIjepaMaskCollator")), "layers": [], "mode": "x class"}),
              ({"root": root("pil"), "layers": [{"w": "ByolMultiViewWrapper", "n": 2, "nloc": 2}], "mode": "x"})]
    for k, sp in enumerate(shapes):
        for wi in (None, [0, 1], [1, 2], [2, 3]):
            out.append(mk_case(rng, sp, wi=wi, nph=0, wh=[0, 0, 0]))
        out.append(mk_case(rng, sp, wi=None, nph=1, wh=[0, 0, 0]))
        out.append(mk_case(rng, sp, wi=[0, 1] if k % 2 else [0, 2], nph=2, wh=[0, 0, 0]))
        out.append(mk_case(rng, sp, wi=None if k % 2 else [1, 3], nph=0, wh=[0, 1, 1]))
        out.append(mk_case(rng, sp, wi=[0, 1], nph=1, wh=[1, 1, 2]))
    # the wrappers' own draws without a seed: sample-level mix (bare, above and below transform wrappers, below a
    # multi-view wrapper), MUGS
    mix = {"w": "KDMixWrapper", "p": 1.0, "alpha": 0.8}
    for layers, mode in (([mix], "x class"), ([mix], "x"), ([x, mix], "class x"), ([mix, x], "x class"),
                         ([mix, {"w": "KDMultiViewWrapper", "cfg": [[2, leaf()]]}], "x")):
        out.append(mk_case(rng, {"root": root(col=("KDMixCollator",)), "layers": layers, "mode": mode}))
    return out


def launch_items(rng, n_random):
    """stacks for the cross-launch comparison: every collator class, every wrapper class with transforms, the wrappers
    with own draws, plus random stacks"""
    info = T.regenerate()
    pool = directed_cases(rng, info)
    keep = [c for c in pool if c["spec"].get("root", {}).get("col")][:10]
    rest = [c for c in pool if c not in keep]
    rng.shuffle(rest)
    items = keep + rest[:6] + [mk_case(rng, gen_spec(rng, no_sched=False)) for _ in range(n_random)]
    return [{k: c[k] for k in ("spec", "ga", "ws1", "rank", "warm", "probe")} for c in items]


def launch_case(rng, n_random):
    # two fresh interpreters with string-hash seeds different from each other and from the harness's own (0)
    hs = rng.sample(range(1, 4000), 2)
    return {"kind": "launch", "items": launch_items(rng, n_random), "hs": hs}


def loader_items(rng, n_random):
    """stacks for one real-DataLoader batch: the basic shapes (transform wrappers flat / nested / stacked, multi-view,
    semseg, PIL pipelines, mix wrapper and MUGS with draws of their own, collators on the root) plus random stacks; every
    item with 0 / 1 earlier runs of the hook on the parent object"""
    root = lambda kind="img", col=(): {"kind": kind, "N": 6, "S": 32 if kind == "pil" else 16, "col": [dict(c=c) for c in col]}  # noqa
    leaf = lambda: {"c": "KDRandomCrop", "a": 0}  # noqa
    x = {"w": "XTransformWrapper", "t": leaf()}
    comp = {"c": "KDComposeTransform", "k": [leaf(), {"c": "KDRandomApply", "a": 1, "k": [{"c": "KDRandomHorizontalFlip", "a": 0}]},
                                             {"c": "PatchwiseTransform", "a": 1, "k": [{"c": "KDRandomHorizontalFlip", "a": 0}]}]}
    mix = {"w": "KDMixWrapper", "p": 1.0, "alpha": 0.8}
    specs = [{"root": root(col=("KDMixCollator",)), "layers": [{"w": "XTransformWrapper", "t": comp}, {"w": "KDSubset", "idx": [2, 1, 1, 0]},
                                                               {"w": "YTransformWrapper", "t": leaf()}], "mode": "x y"},
             {"root": root(col=("KDDinoMaskCollator",)), "layers": [{"w": "KDMultiViewWrapper", "cfg": [[2, comp], [1, leaf()]]}], "mode": "x"},
             {"root": root(), "layers": [{"w": "SemsegTransformWrapper", "ts": [{"c": "KDSemsegRandomHorizontalFlip", "a": 0},
                                                                                {"c": "KDSemsegRandomCrop", "a": 0}]}], "mode": "x semseg"},
             {"root": root(col=("KDMixCollator", "KDIjepaMaskCollator")), "layers": [x, mix], "mode": "x class"}]
    pil = [{"root": root("pil"), "layers": [{"w": w, "n": 2, "nloc": 2}], "mode": "x"}
           for w in ("ByolMultiViewWrapper", "MUGSMultiViewWrapper", "ImagenetMinaugXTransformWrapper")]
    specs.append(rng.choice(pil))
    specs += [gen_spec(rng, no_sched=True) for _ in range(n_random)]
    items = []
    for sp in specs:
        taken = set()
        ga = _other_seed(rng, taken)
        items.append({"spec": sp, "ga": ga, "phist": [_other_seed(rng, taken) for _ in range(rng.choice([0, 0, 1]))]})
    return items


def loader_case(rng, nw=None, n_random=3):
    ts1 = rng.randrange(10 ** 6)
    ts2 = rng.randrange(10 ** 6)
    while ts2 == ts1:
        ts2 = rng.randrange(10 ** 6)
    return {"kind": "loader", "items": loader_items(rng, n_random), "nw": nw or rng.choice([1, 2, 3]), "ts1": ts1, "ts2": ts2}


def _loader_items(case):
    """(cases written before the batching hold ONE stack: spec / ga at top level)"""
    if "items" in case:
        return case["items"]
    return [{"spec": case["spec"], "ga": case["ga"], "phist": []}]


def gen_cases(rng, tier):
    info = T.regenerate()
    out = []
    if info["errors"]:
        out.append({"kind": "translator", "errors": info["errors"]})
    out += [{"kind": "unlisted", "cls": c} for c in unlisted_wrappers(info)]
    out.append({"kind": "hook_selftest"})
    out += directed_cases(rng, info)
    out += [mk_case(rng, gen_spec(rng)) for _ in range(250 if tier == "quick" else 2500)]
    # real DataLoader runs for EVERY worker count (one launch serves a whole batch of stacks)
    for nw in (1, 2, 3):
        out += [loader_case(rng, nw, 3)] if tier == "quick" else [loader_case(rng, nw, 12) for _ in range(4)]
    out += [launch_case(rng, 4)] if tier == "quick" else [launch_case(rng, 60) for _ in range(3)]
    return out


def search_cases(rng, tier):
    info = T.regenerate()
    for c in directed_cases(rng, info):
        yield c
    for nw in (1, 2, 3):
        yield loader_case(rng, nw, 2)
    yield launch_case(rng, 10)
    for c in directed_cases(rng, info):
        yield c
    for k in range(1500):
        yield mk_case(rng, gen_spec(rng))
        if k % 500 == 499:
            yield launch_case(rng, 40)


def shrink(case):
    if case.get("kind") == "launch":
        items = case["items"]
        if len(items) > 1:
            h = len(items) // 2
            yield {**case, "items": items[:h]}
            yield {**case, "items": items[h:]}
            return
        n = 0
        for c in shrink({**items[0], "kind": "sim", "ws2": items[0]["ws1"] + 1}):
            yield {**case, "items": [{k: c[k] for k in ("spec", "ga", "ws1", "rank", "warm", "probe")}]}
            n += 1
            if n >= 10:     # every candidate costs two interpreter launches
                return
        return
    if case.get("kind") == "loader":
        items = _loader_items(case)
        base = {k: v for k, v in case.items() if k not in ("spec", "ga")}
        if len(items) > 1:
            h = len(items) // 2
            yield {**base, "items": items[:h]}
            yield {**base, "items": items[h:]}
            return
        it = items[0]
        if it.get("phist"):
            yield {**base, "items": [{**it, "phist": []}]}
        n = 0
        for c in shrink({"kind": "sim", "spec": it["spec"], "ga": it["ga"], "ws1": 1, "ws2": 2, "rank": 0, "warm": [], "probe": [0]}):
            if spec_has_sched(c["spec"]):
                continue
            yield {**base, "items": [{**it, "spec": c["spec"]}]}
            n += 1
            if n >= 12:     # every candidate costs three loader launches
                return
        return
    if case.get("kind") != "sim":
        return
    # histories and the worker info first: the smallest history that still shows the failure
    if case.get("phist"):
        yield {**case, "phist": []}
        if len(case["phist"]) > 1:
            yield {**case, "phist": case["phist"][:1]}
    if any(case.get("wh") or []):
        yield {**case, "wh": [[], [], []]}
        wh = case["wh"]
        for j in range(3):
            if wh[j]:
                yield {**case, "wh": [w if i != j else [] for i, w in enumerate(wh)]}
            if len(wh[j]) > 1:
                yield {**case, "wh": [w if i != j else w[:1] for i, w in enumerate(wh)]}
    if case.get("wi") is not None:
        yield {**case, "wi": None}
    spec = case["spec"]
    if "interleaved" in spec:
        for s in spec["interleaved"]:
            yield mk_like(case, s)
        subs = spec["interleaved"]
        if spec.get("share_root"):
            x0 = {"w": "XTransformWrapper", "t": {"c": "KDRandomCrop", "a": 0}}
            if len(subs) > 2:
                for j in range(len(subs)):
                    yield mk_like(case, {**spec, "interleaved": subs[:j] + subs[j + 1:]})
            if subs[0]["root"].get("col"):
                yield mk_like(case, {**spec, "interleaved": [{**s, "root": {**s["root"], "col": []}} for s in subs]})
            for j, s in enumerate(subs):
                if s["root"]["kind"] == "img" and s["layers"] != [x0] and s["layers"]:
                    for cand in ([x0], []):
                        yield mk_like(case, {**spec, "interleaved": subs[:j] + [{**s, "layers": cand, "mode": "x"}] + subs[j + 1:]})
        return
    layers = spec["layers"]
    for i, l in enumerate(layers):
        if l["w"] == "concat":
            yield mk_like(case, {**spec, "layers": layers[:i]})
            for o in l["others"]:
                yield mk_like(case, o)
    for i, l in enumerate(layers):
        if l["w"] in ("SubsetWrapper", "KDSubset", "RepeatWrapper", "concat"):
            continue
        rest = layers[:i] + layers[i + 1:]
        items = set(spec["mode"].split(" "))
        if l["w"] in K.X_WRAPPERS or l["w"] in ("LabelSmoothingWrapper", "ShuffleWrapper"):
            yield mk_like(case, {**spec, "layers": rest})
    for i, l in enumerate(layers):
        if "t" in l:
            for s in L.shrink_spec(l["t"]):
                if s["c"] != L.FOREIGN:
                    yield mk_like(case, {**spec, "layers": layers[:i] + [{**l, "t": s}] + layers[i + 1:]})
        if "cfg" in l and len(l["cfg"]) > 1:
            for j in range(len(l["cfg"])):
                yield mk_like(case, {**spec, "layers": layers[:i] + [{**l, "cfg": l["cfg"][:j] + l["cfg"][j + 1:]}] + layers[i + 1:]})
        if "ts" in l and len(l["ts"]) > 1:
            for j in range(len(l["ts"])):
                yield mk_like(case, {**spec, "layers": layers[:i] + [{**l, "ts": l["ts"][:j] + l["ts"][j + 1:]}] + layers[i + 1:]})
    if spec["root"].get("col"):
        cols = spec["root"]["col"]
        for j in range(len(cols)):
            yield mk_like(case, {**spec, "root": {**spec["root"], "col": cols[:j] + cols[j + 1:]}})
    if case["warm"]:
        yield {**case, "warm": []}


def mk_like(case, spec):
    n = total_len(spec)
    return {**case, "spec": spec, "warm": [i for i in case["warm"] if i < n][:1], "probe": sorted({0, n - 1})}


# ---------------------------------------------------------------------------
# running the real code
# ---------------------------------------------------------------------------
def _stream(g):
    """first N_STREAM draws of a COPY of the generator (the generator itself is not advanced)"""
    if isinstance(g, L.Spy):
        g = g._gen
    c = copy.deepcopy(g)
    return [float(v).hex() for v in c.random(N_STREAM)]


def _wi_kwargs(spec):
    return dict(batch_size=2, updates=500) if spec_has_sched(spec) else {}


def _get(ds, i):
    try:
        return L.canon(ds[i])
    except Exception as e:  # noqa
        return K.exc_info(e)


def _mode_wrappers(ds):
    """the ModeWrapper(s) of a stack: the top, or the members of an _InterleavedConcatDataset"""
    if "datasets" in vars(ds) and type(ds).__name__ == "_InterleavedConcatDataset":
        return list(ds.datasets)
    return [ds]


def _real_batch(M, idxs):
    """a batch of REAL samples of the stack below the ModeWrapper M, in the layout 'x class' the collators are called
    with: x stacked (a list of stacked views for multi-view stacks), class as one-hot float rows"""
    import torch
    top = M.dataset
    xs = [top.getitem_x(i) for i in idxs]
    if all(torch.is_tensor(x) for x in xs) and len({tuple(x.shape) for x in xs}) == 1:
        x = torch.stack(xs)
    elif all(isinstance(x, list) and all(torch.is_tensor(v) for v in x) for x in xs) \
            and len({tuple(tuple(v.shape) for v in x) for x in xs}) == 1:
        x = [torch.stack([x[k] for x in xs]) for k in range(len(xs[0]))]
    else:
        return None
    ys = []
    for i in idxs:
        y = top.getitem_class(i)
        if torch.is_tensor(y) and y.ndim == 1:
            ys.append(y.float())
        else:
            ys.append(torch.eye(K.N_CLASSES)[int(y) % K.N_CLASSES].clone())
    return [x, torch.stack(ys)]


def _call_collators(ds, idxs, with_exc_text=True, skip_process_shared=False):
    """run EVERY collator registered on the root dataset(s) on a batch of real samples of the stack (after worker
    initialisation): KDMixCollator mixes x / class, the DINO / I-JEPA collators write their masks into ctx, the padding
    collator pads.  (I-JEPA's iteration counter - a multiprocessing.Value shared by all copies, it seeds the block SIZES
    on purpose - is reset first so that two workers are comparable.)  -> canonical outputs"""
    import torch
    out = []
    for M in _mode_wrappers(ds):
        cols = list(M.collators)
        if not cols:
            continue
        n = len(M)
        use = [i % n for i in idxs][:4] or [0]
        while len(use) < 4:
            use.append(use[-1])
        try:
            batch = _real_batch(M, use)
        except Exception as e:  # noqa
            batch = None
        if batch is None:
            g = torch.Generator().manual_seed(5)
            batch = [torch.rand(4, 3, 8, 8, generator=g), torch.eye(4)[:4].clone()]
        for c in cols:
            if "_itr_counter" in vars(c):
                if skip_process_shared:
                    # (inside concurrently running worker processes the counter - shared memory on purpose - is raced
                    # for by all workers: what this collator returns is not a function of one worker's seed there; its
                    # generator is the root's and is compared as a member stream)
                    continue
                c._itr_counter.value = -1
            ctx = {}
            try:
                if type(c).__name__ == "PadSequencesCollator":
                    res = c.collate([(batch[0][k] if torch.is_tensor(batch[0]) else batch[0][0][k], batch[1][k])
                                     for k in range(4)], "x class", ctx)
                else:
                    b = [([v.clone() for v in batch[0]] if isinstance(batch[0], list) else batch[0].clone()), batch[1].clone()]
                    res = c.collate(b, "x class", ctx)
                out.append([type(c).__name__, L.canon(res), L.canon(ctx)])
            except Exception as e:  # noqa
                out.append([type(c).__name__, "EXC", type(e).__name__] + ([str(e)[:100]] if with_exc_text else []))
    return out


def _init_worker(W, ws, rank, kw, wi=None, pre=()):
    """what a dataloader worker does before its first sample: the process-global generators are seeded from the
    worker's seed (torch.utils.data._utils.worker seeds torch, random and numpy), then the user's worker_init_fn runs.
    wi: what get_worker_info() answers meanwhile ([id, num_workers] or None).  pre: seeds of EARLIER runs of the hook on
    this very object (the run with ws comes last and has to win)"""
    for s_ in list(pre) + [ws]:
        L.seed_globals(s_)
        with K.MockWorkerInfo(wi, seed=s_, dataset=W):
            W.worker_init_fn(rank, **kw)


def _parent_history(D, case, kw):
    """earlier runs of the hook on the PARENT object (manual call in the main process, an earlier launch), each under
    its own global seed and followed by a request (so that the state left behind is used)"""
    for g in case.get("phist") or []:
        L.seed_globals(g)
        D.worker_init_fn(case.get("rank", 0), **kw)
        _get(D, 0)


def run_sim_case(case):
    spec = case["spec"]
    kw = _wi_kwargs(spec)
    wi = case.get("wi")
    wh = case.get("wh") or [[], [], []]
    obs = {}
    try:
        L.seed_globals(case["ga"])
        D = K.build_stack(spec)
    except Exception as e:  # noqa
        return {"construct_error": f"{type(e).__name__}: {e}", "tb": traceback.format_exc()[-800:]}
    for i in case["warm"]:
        _get(D, i)
    try:
        _parent_history(D, case, kw)
    except Exception as e:  # noqa
        return {"construct_error": f"worker_init_fn on the parent object raised {type(e).__name__}: {str(e)[:300]}",
                "tb": traceback.format_exc()[-800:]}
    paths = [p for p, _ in K.slot_objects(D)]
    obs["paths"] = paths
    obs["parent"] = [_stream(o.rng) for _, o in K.slot_objects(D)]
    obs["workers"] = []
    for ws, pre in zip((case["ws1"], case["ws2"], case["ws1"]), wh):
        W = K.worker_copy(D)
        objs = [o for _, o in K.slot_objects(W)]
        before_gens = [o.rng for o in objs]          # (kept alive: an id may be reused once its object is collected)
        before_ids = [id(g) for g in before_gens]
        before = [_stream(o.rng) for o in objs]
        rec = {"ws": ws, "before": before, "pre": list(pre)}
        try:
            _init_worker(W, ws, case["rank"], kw, wi, pre)
        except Exception as e:  # noqa
            rec["error"] = f"{type(e).__name__}: {str(e)[:300]}"
            obs["workers"].append(rec)
            continue
        rec["same_object"] = [o.rng is g for o, g in zip(objs, before_gens)]
        rec["after"] = [_stream(o.rng) for o in objs]
        rec["gen_ids"] = [before_ids.index(id(o.rng)) if id(o.rng) in before_ids else -1 for o in objs]
        groups = {}
        for k, o in enumerate(objs):
            groups.setdefault(id(o.rng), []).append(k)
        rec["shared"] = sorted(groups.values())
        # what the worker then produces: samples and collated batches (every stochastic decision shows in them)
        with K.MockWorkerInfo(wi, seed=ws, dataset=W):
            rec["samples"] = [[i, _get(W, i)] for i in case["probe"]]
            rec["collated"] = _call_collators(W, case["probe"])
        obs["workers"].append(rec)
    # the instrumented worker (case for the Coq model); earlier runs of the hook in the worker happen before the slots
    # are tagged: the model is about ONE run, whatever the slots held before
    W = K.worker_copy(D)
    try:
        if wh[0]:
            _init_worker(W, wh[0][-1], case["rank"], kw, wi, wh[0][:-1])
    except Exception as e:  # noqa
        obs["spied_error"] = f"{type(e).__name__}: {str(e)[:300]}"
        return obs
    spies = K.tag_stack_slots(W, "ctor")
    obs["stack"] = K.live_stack(W)
    try:
        with K.PatchedDefaultRng("wrk") as P:
            _init_worker(W, case["ws1"], case["rank"], kw, wi)
        obs["created"] = P.count
    except Exception as e:  # noqa
        obs["spied_error"] = f"{type(e).__name__}: {str(e)[:300]}"
        return obs
    obs["after"] = K.stack_slots(K.live_stack(W))
    srcs = []

    def on_draw(spy):
        t = list(spy.tag)
        if t not in srcs:
            srcs.append(t)

    L.DRAW_HOOK[0] = on_draw
    try:
        with K.PatchedDefaultRng("inj"), K.MockWorkerInfo(wi, seed=case["ws1"], dataset=W):
            trip = L.Tripwire()
            obs["samples"] = [[i, _get(W, i)] for i in case["probe"]]
            obs["collated"] = _call_collators(W, case["probe"])
            srcs += [["glob", g] for g in trip.touched()]
    finally:
        L.DRAW_HOOK[0] = None
    obs["sources"] = srcs
    return obs


# ---------------------------------------------------------------------------
# the same fully seeded worker in several interpreter launches
# ---------------------------------------------------------------------------
def launch_record(item):
    """one fully seeded simulated worker -> everything random about it: first draws of every member generator, the
    samples it serves, the batches its registered collators produce.  No spies, no patches."""
    spec = item["spec"]
    try:
        L.seed_globals(item["ga"])
        D = K.build_stack(spec)
        for i in item["warm"]:
            _get(D, i)
        W = K.worker_copy(D)
        _init_worker(W, item["ws1"], item["rank"], _wi_kwargs(spec))
    except Exception as e:  # noqa
        return {"error": type(e).__name__}
    objs = K.slot_objects(W)

    def noexc(v):
        return v[:2] + v[3:] if isinstance(v, list) and v and v[0] == "EXC" else v     # (messages may hold addresses)

    return {"paths": [p for p, _ in objs], "streams": [_stream(o.rng)[:8] for _, o in objs],
            "samples": [[i, noexc(_get(W, i))] for i in item["probe"]],
            "collated": _call_collators(W, item["probe"], with_exc_text=False)}


def _launch_child():
    import json
    import sys
    from . import common
    common.setup_repo_path()
    items = json.load(sys.stdin)["items"]
    out = [launch_record(it) for it in items]
    sys.stdout.write("\n@@C09-LAUNCH@@" + json.dumps({"hashseed": __import__("os").environ.get("PYTHONHASHSEED"), "records": out}) + "\n")


def run_launch_case(case):
    import json
    import os
    import subprocess
    import sys
    from concurrent.futures import ThreadPoolExecutor
    from . import common

    def launch(h):
        env = dict(os.environ)
        env["PYTHONHASHSEED"] = str(h)
        p = subprocess.run([sys.executable, "-m", "harness.c09", "--launch-child"], input=json.dumps({"items": case["items"]}),
                           env=env, cwd=common.VERIF, capture_output=True, text=True, timeout=1500)
        if p.returncode != 0 or "@@C09-LAUNCH@@" not in p.stdout:
            return {"crash": (p.stderr or p.stdout)[-600:]}
        return json.loads(p.stdout.split("@@C09-LAUNCH@@")[1])

    with ThreadPoolExecutor(max_workers=2) as ex:
        runs = list(ex.map(launch, case["hs"]))
    here = {"hashseed": os.environ.get("PYTHONHASHSEED"), "records": [launch_record(it) for it in case["items"]]}
    return {"launches": runs + [here]}


def _global_numpy_stream():
    """first draws of a COPY of the process-global NumPy RNG (not advanced): where the wrappers' own draws come from"""
    import numpy as np
    r = np.random.RandomState()
    r.set_state(np.random.get_state())
    return [float(v).hex() for v in r.random_sample(8)]


def run_loader_case(case):
    """ONE real DataLoader(num_workers=nw) launch per base seed serves all stacks of the case: the user hook runs the
    worker_init_fn of every stack, the probe dataset reports - from inside the worker process - the first draws of every
    member generator (copies), the worker's global NumPy stream, then served samples and collated batches"""
    import gc
    import json
    import torch
    from torch.utils.data import DataLoader, Dataset, get_worker_info
    items = _loader_items(case)
    nw = case["nw"]
    obs = {"items": [], "runs": []}
    Ds = []
    for it in items:
        rec = {}
        try:
            L.seed_globals(it["ga"])
            D = K.build_stack(it["spec"])
            _parent_history(D, {"phist": it.get("phist"), "rank": 0}, {})
            rec["paths"] = [p for p, _ in K.slot_objects(D)]
            rec["parent"] = [_stream(o.rng)[:8] for _, o in K.slot_objects(D)]
        except Exception as e:  # noqa
            D = None
            rec["construct_error"] = f"{type(e).__name__}: {str(e)[:300]}"
        Ds.append(D)
        obs["items"].append(rec)
    n_probe = 3

    class Probe(Dataset):
        def __init__(self, dss):
            self.dss = dss

        def __len__(self):
            return nw        # batch_size 1, index queue filled round-robin: every worker serves exactly one item

        def __getitem__(self, i):
            info = get_worker_info()
            out = {"wid": info.id if info is not None else -1, "nw": info.num_workers if info is not None else 0,
                   "gnp": _global_numpy_stream(), "items": []}
            for ds in self.dss:
                if ds is None:
                    out["items"].append(None)
                    continue
                objs = [o for _, o in K.slot_objects(ds)]
                rec = {"streams": [_stream(o.rng)[:8] for o in objs]}
                n = len(ds)
                idxs = sorted({0, n - 1, n // 2})[:n_probe]
                rec["samples"] = [[j, _get(ds, j)] for j in idxs]
                rec["collated"] = _call_collators(ds, idxs, with_exc_text=False, skip_process_shared=True)
                out["items"].append(rec)
            return json.dumps(out)

    def hook(worker_id):
        for ds in Ds:
            if ds is not None:
                ds.worker_init_fn(worker_id)

    for ts in (case["ts1"], case["ts2"], case["ts1"]):
        torch.manual_seed(ts)
        per_worker = {}
        it = None
        try:
            it = iter(DataLoader(Probe(Ds), batch_size=1, num_workers=nw, worker_init_fn=hook, multiprocessing_context="fork"))
            for blob in it:
                r = json.loads(blob[0])
                per_worker.setdefault(str(r["wid"]), []).append(r)
        except Exception as e:  # noqa
            obs["runs"].append({"ts": ts, "error": f"{type(e).__name__}: {str(e)[:300]}"})
            continue
        finally:
            del it      # shut the workers down now, not in some later forked child
            gc.collect()
        obs["runs"].append({"ts": ts, "workers": dict(sorted(per_worker.items()))})
    return obs


def oracle_loader(case, obs):
    items = _loader_items(case)
    nw = case["nw"]
    runs = obs["runs"]

    def noexc(v):
        return v[:2] + v[3:] if isinstance(v, list) and v and v[0] == "EXC" else v     # (messages may hold addresses)

    for r in runs:
        if "error" in r:
            return f"DataLoader(num_workers={nw}) over {len(items)} stacks raised {r['error']}"
        if sorted(r["workers"]) != [str(k) for k in range(nw)] or any(len(v) != 1 for v in r["workers"].values()):
            return (f"harness: DataLoader(num_workers={nw}): items were served by workers "
                    f"{ {k: len(v) for k, v in r['workers'].items()} }, expected one item per worker")
        for wid, (rec,) in r["workers"].items():
            if rec["nw"] != nw:
                return f"harness: worker {wid} saw num_workers={rec['nw']}, expected {nw}"
    W = [{wid: v[0] for wid, v in r["workers"].items()} for r in runs]
    for k, it in enumerate(items):
        sig = K.spec_sig(it["spec"])
        io = obs["items"][k]
        where = f"[stack {k} of {len(items)}, real DataLoader(num_workers={nw})" + (
            f", worker_init_fn ran {len(it['phist'])}x on the dataset in the main process before the launch" if it.get("phist") else "") + "]"
        if "construct_error" in io:
            return f"{sig}: construction failed: {io['construct_error']} {where}"
        paths = io["paths"]
        for rn, r in enumerate(W):
            for wid, rec in r.items():
                st = rec["items"][k]["streams"]
                for s_, p_ in enumerate(paths):
                    if st[s_] == io["parent"][s_]:
                        return (f"{sig}: worker {wid} (base seed {runs[rn]['ts']}): after worker_init_fn the generator of {p_} "
                                f"is still the copy inherited from the parent process (first draws {st[s_][:2]}) {where}")
            ws = sorted(r)
            for a in range(len(ws)):
                for b in range(a + 1, len(ws)):
                    if r[ws[a]]["gnp"] == r[ws[b]]["gnp"]:
                        return f"harness / torch: workers {ws[a]} and {ws[b]} have the same global NumPy stream {where}"
                    for s_, p_ in enumerate(paths):
                        if r[ws[a]]["items"][k]["streams"][s_] == r[ws[b]]["items"][k]["streams"][s_]:
                            return f"{sig}: workers {ws[a]} and {ws[b]} of one launch replay the same stream in {p_} {where}"
        # equal base seeds (equal worker seeds): everything agrees
        for wid in W[0]:
            a, b = W[0][wid]["items"][k], W[2][wid]["items"][k]
            for s_, p_ in enumerate(paths):
                if a["streams"][s_] != b["streams"][s_]:
                    return (f"{sig}: two launches with the same base seed {case['ts1']}: worker {wid} does not reproduce the "
                            f"stream of {p_} {where}")
            for (i, u), (_, v) in zip(a["samples"], b["samples"]):
                if noexc(u) != noexc(v):
                    return (f"{sig}: two launches with the same base seed {case['ts1']}: worker {wid} does not reproduce sample "
                            f"{i}: {str(u)[:160]} vs {str(v)[:160]} {where}")
            if a["collated"] != b["collated"]:
                return (f"{sig}: two launches with the same base seed {case['ts1']}: worker {wid} does not reproduce the "
                        f"batches of the registered collators {where}")
        # different base seeds: every member stream differs
        for wid in W[0]:
            if W[0][wid]["gnp"] == W[1][wid]["gnp"]:
                return f"harness / torch: base seeds {case['ts1']} / {case['ts2']} give worker {wid} the same global NumPy stream"
            a, b = W[0][wid]["items"][k], W[1][wid]["items"][k]
            for s_, p_ in enumerate(paths):
                if a["streams"][s_] == b["streams"][s_]:
                    return (f"{sig}: two launches with different base seeds {case['ts1']} / {case['ts2']} give worker {wid} the "
                            f"same stream in {p_} (first draws {a['streams'][s_][:2]}): the launches replay one another {where}")
        for wid, rec in W[0].items():
            for i, v in rec["items"][k]["samples"]:
                if isinstance(v, list) and v and v[0] == "EXC" and "transforms" not in v[3]:
                    return f"{sig}: worker {wid}: sample {i} raised {v[1]}: {v[2]} (in {v[3] or 'library code'}) {where}"
    return None


def run_impl(case):
    if case.get("kind") == "translator":
        return {"skipped": "translator"}
    if case.get("kind") == "unlisted":
        return {"unlisted": case["cls"] in unlisted_wrappers(T.regenerate())}
    if case.get("kind") == "hook_selftest":
        return {"selftest": T.hook_selftest()}
    if case.get("kind") == "loader":
        return run_loader_case(case)
    if case.get("kind") == "launch":
        return run_launch_case(case)
    return run_sim_case(case)


# ---------------------------------------------------------------------------
# independent Python statement of the property
# ---------------------------------------------------------------------------
def _unit_of(path):
    """the top-level transform of a wrapper field (it shares ONE generator with everything nested in it), or the
    collators of one root dataset (they share the root's generator)"""
    u = path.split("/")[0]
    if "root.collators[" in u:
        u = u.split("root.collators[")[0] + "root.collators"
    return u


def oracle(case, obs):
    if "harness_exception" in obs:
        return "harness exception: " + obs["harness_exception"] + obs.get("tb", "")
    if case.get("kind") == "translator":
        return None
    if case.get("kind") == "unlisted":
        if obs.get("unlisted"):
            return (f"sample wrapper class {case['cls']} has stochastic parts (called transform fields / own draws) but the "
                    "harness builds no stacks with it (harness/c09.py GENERATED_WRAPPERS; fail closed)")
        return None
    if case.get("kind") == "hook_selftest":
        bad = [r for r in obs["selftest"] if r["expected"] != r["got"]]
        n_neg = sum(1 for r in obs["selftest"] if r["expected"] == "refused")
        if bad or n_neg < 15:
            return ("self-test of the worker_init_fn shape checks failed (harness/translate_rng.py must refuse conditional / "
                    f"stateful / missing re-seeds and accept the well-formed controls; {n_neg} negative sources): "
                    + "; ".join(f"{r['name']}: expected {r['expected']}, got {r['got']} ({r['detail']})" for r in bad))
        return None
    if case.get("kind") == "loader":
        return oracle_loader(case, obs)
    if case.get("kind") == "launch":
        runs = obs["launches"]
        for r in runs:
            if "crash" in r:
                return "launch of a fresh interpreter failed: " + r["crash"]
        ref = runs[0]
        for r in runs[1:]:
            for k, (a, b) in enumerate(zip(ref["records"], r["records"])):
                if a == b:
                    continue
                it = case["items"][k]
                sig = K.spec_sig(it["spec"])
                what = "?"
                if "error" in a or "error" in b:
                    what = f"one launch failed to build / initialise the worker ({a.get('error')} / {b.get('error')})"
                else:
                    for s_, p_ in enumerate(a["paths"]):
                        if a["streams"][s_] != b["streams"][s_]:
                            what = (f"the generator of {p_} starts with {a['streams'][s_][:2]} in one launch and with "
                                    f"{b['streams'][s_][:2]} in the other")
                            break
                    else:
                        if a["collated"] != b["collated"]:
                            d = next(k2 for k2, (u, v) in enumerate(zip(a["collated"], b["collated"])) if u != v)
                            what = (f"the batch collated by the registered {a['collated'][d][0]} differs: "
                                    f"{str(a['collated'][d][1:])[:160]} vs {str(b['collated'][d][1:])[:160]}")
                        elif a["samples"] != b["samples"]:
                            d = next(k2 for k2, (u, v) in enumerate(zip(a["samples"], b["samples"])) if u != v)
                            what = f"sample {a['samples'][d][0]} differs: {str(a['samples'][d][1])[:160]} vs {str(b['samples'][d][1])[:160]}"
                return (f"{sig}: the same fully seeded worker (global seed {it['ga']}, worker seed {it['ws1']}, rank {it['rank']}) "
                        f"does not reproduce its streams in another interpreter launch (PYTHONHASHSEED={ref['hashseed']} vs "
                        f"{r['hashseed']}): {what}  [item {k} of {len(case['items'])}]")
        return None
    sig = K.spec_sig(case["spec"])
    if "construct_error" in obs:
        return f"{sig}: construction failed: {obs['construct_error']}"
    paths = obs["paths"]
    for w in obs["workers"]:
        if "error" in w:
            return f"{sig}: worker_init_fn(rank={case['rank']}) raised {w['error']}"
    if "spied_error" in obs:
        return f"{sig}: worker_init_fn on the instrumented copy raised {obs['spied_error']}"
    w1, w2, w1b = obs["workers"]
    for w in (w1, w2):
        for s, p in enumerate(paths):
            if w["same_object"][s] or w["after"][s] == w["before"][s]:
                return (f"{sig}: worker seed {w['ws']}: after deepcopy + np.random.seed + worker_init_fn(rank={case['rank']}) "
                        f"the generator of {p} is still the one inherited from the parent (same object: {w['same_object'][s]}, "
                        f"first draws {w['after'][s][:2]})")
            if w["after"][s] == obs["parent"][s]:
                return f"{sig}: worker seed {w['ws']}: {p} replays the parent's stream"
    if case["ws1"] != case["ws2"]:
        vals2 = {}
        for s, p in enumerate(paths):
            for v in w2["after"][s]:
                vals2.setdefault(v, p)
        for s, p in enumerate(paths):
            if w1["after"][s] == w2["after"][s]:
                return (f"{sig}: workers with different seeds {case['ws1']} / {case['ws2']} (same rank {case['rank']}) replay "
                        f"the same stream in {p}: {w1['after'][s][:2]}")
            hit = [v for v in w1["after"][s] if v in vals2]
            if hit:
                return (f"{sig}: workers with different seeds {case['ws1']} / {case['ws2']} share part of a stream: "
                        f"{p} of the first and {vals2[hit[0]]} of the second both produce {hit[0]}")
    for s, p in enumerate(paths):
        if w1["after"][s] != w1b["after"][s]:
            return f"{sig}: the same worker seed {case['ws1']} does not reproduce the stream of {p}"
    # ... and what the worker produces from them (covers the wrappers' own draws, which have no generator slot)
    def noexc(v):
        return v[:2] + v[3:] if isinstance(v, list) and v and v[0] == "EXC" else v     # (messages may hold addresses)

    for (i, a), (_, b) in zip(w1["samples"], w1b["samples"]):
        if noexc(a) != noexc(b):
            return (f"{sig}: the same worker seed {case['ws1']} (numpy / torch / random of the worker seeded with it, then "
                    f"worker_init_fn(rank={case['rank']})) does not reproduce sample {i}: {str(a)[:200]} vs {str(b)[:200]}")
    for a, b in zip(w1["collated"], w1b["collated"]):
        if a != b:
            return (f"{sig}: the same worker seed {case['ws1']} does not reproduce the batch collated by the registered "
                    f"{a[0]}: {str(a[1:])[:200]} vs {str(b[1:])[:200]}")
    # distinct units, distinct generators
    for a in range(len(paths)):
        for b in range(a + 1, len(paths)):
            if _unit_of(paths[a]) != _unit_of(paths[b]) and w1["after"][a] == w1["after"][b]:
                return (f"{sig}: worker seed {case['ws1']}: {paths[a]} and {paths[b]} (different transforms) draw from the "
                        f"same stream")
    for i, v in obs.get("samples", []):
        # (a transform composition that raises on some draws - in-place op on an expanded view - is not this property's
        # business; the wrapper / dataset code must not raise)
        if isinstance(v, list) and v and v[0] == "EXC" and "transforms" not in v[3]:
            return f"{sig}: sample {i} after worker_init_fn raised {v[1]}: {v[2]} (in {v[3] or 'library code'})"
    # worker-derived: a generator created by the hook, or one of the worker's own process-global generators (the
    # DataLoader seeds them per worker); not: inherited copies, per-item generators, OS entropy
    bad = [s for s in obs.get("sources", []) if not (s[0] == "wrk" or (s[0] == "glob" and s[1] in ("GNumpy", "GTorch", "GPython")))]
    if bad:
        where = [paths[s[1]] for s in bad if s[0] == "ctor" and s[1] < len(paths)]
        return (f"{sig}: after worker_init_fn samples still draw from generators that are not worker-derived: {bad[:4]} "
                f"({where[:4] or 'created afterwards / entropy'})")
    return None


# ---------------------------------------------------------------------------
# Coq side
# ---------------------------------------------------------------------------
def _shared_root_with_collators(spec):
    return bool(spec.get("share_root")) and bool(spec["interleaved"][0]["root"].get("col"))


def coq_applicable(case, obs):
    # (the Coq stack model is a TREE: a root object shared by several interleaved sub-stacks is exact in it as long as
    # the root itself holds no generator slots; with collators registered on the shared root the object graph is a DAG
    # - the collators are re-seeded once per sub-stack, the last run wins - and only the Python oracle applies)
    return (case.get("kind") == "sim" and "after" in obs and "sources" in obs
            and not _shared_root_with_collators(case["spec"]))


def coq_case(case, obs):
    after = [L.coq_slot(p) for p in obs["after"]]
    srcs = [L.coq_prov(p) for p in obs["sources"]]
    return coq((K.coq_dstack(obs["stack"]), Nat(obs["created"]), after, srcs))


def features(case, obs):
    if case.get("kind") == "launch":
        yield "kind=launch"
        yield "launch_items=%d" % len(case["items"])
        for r in obs.get("launches", []):
            yield "launch_hashseed=" + str(r.get("hashseed"))
        return
    if case.get("kind") == "loader":
        yield "kind=loader"
        yield "loader_num_workers=%d" % case["nw"]
        yield "loader_stacks=%d" % len(_loader_items(case))
        for it in _loader_items(case):
            yield "loader_parent_hooks=%d" % len(it.get("phist") or [])
            for l in (it["spec"].get("layers") or []):
                yield "loader_layer=" + l["w"]
        return
    if case.get("kind") != "sim":
        yield "kind=" + str(case.get("kind"))
        return
    spec = case["spec"]
    wi = case.get("wi")
    yield "worker_info=" + ("None" if wi is None else "num_workers=%d" % wi[1])
    yield "parent_hooks=%d" % len(case.get("phist") or [])
    yield "worker_pre_hooks=" + "/".join(str(len(w)) for w in (case.get("wh") or [[], [], []]))
    yield "top=" + (("interleaved_shared_root" if spec.get("share_root") else "interleaved") if "interleaved" in spec else "ModeWrapper")
    specs = spec["interleaved"] if "interleaved" in spec else [spec]
    for sp in specs:
        yield "root=" + sp["root"]["kind"]
        yield "collators=%d" % len(sp["root"].get("col", []))
        for l in sp["layers"]:
            yield "layer=" + l["w"]
    yield "slots=%d" % min(len(obs.get("paths", [])), 12)
    yield "created=%s" % min(obs.get("created", -1), 8)
    yield "drew=%s" % bool(obs.get("sources"))
    yield "warm=%d" % len(case["warm"])
    yield "ws_zero=%s" % (0 in (case["ws1"], case["ws2"]))
    for s_ in obs.get("sources", []):
        if s_[0] == "glob":
            yield "own_draws_from=" + s_[1]
    for c in obs.get("collated", []):
        yield "collated=" + c[0] + ("#raised" if c[1] == "EXC" else "")


def nontrivial_key(case, obs):
    if case.get("kind") == "loader":
        if any("error" in r for r in obs.get("runs", [])) or not any(io.get("paths") for io in obs.get("items", [])):
            return None
        return ("loader", case["nw"], tuple(K.spec_sig(it["spec"]) for it in _loader_items(case)))
    if case.get("kind") == "launch":
        runs = obs.get("launches", [])
        if len(runs) < 3 or any("crash" in r for r in runs) or len({r["hashseed"] for r in runs}) < 3:
            return None
        return ("launch", len(case["items"]), tuple(case["hs"]))
    if case.get("kind") != "sim" or "sources" not in obs:
        return None
    if not obs["paths"] or not any(s[0] == "wrk" for s in obs["sources"]):
        return None
    return (K.spec_sig(case["spec"]), len(obs["paths"]))


if __name__ == "__main__":
    import sys as _sys
    if "--launch-child" in _sys.argv:
        _launch_child()
