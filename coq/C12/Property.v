(* C12 — rank-aware samplers split one global epoch draw evenly and reproducibly.
   Statements only; proofs are in Proofs.v.  Quantification: every dataset size
   n >= 0 (incl. n < W), world size W >= 1, rank < W, num_repeats >= 1, drop_last
   on/off, every seed/epoch, every draw oracle with the stated contract. *)
From Coq Require Import ZArith List Bool Arith Permutation.
Import ListNotations.
From KD Require Import C12.Model C12.Spec C12.Proofs.

(* ---- DistributedSampler ---- *)
Theorem rank_lengths_equal : forall c draw, len_oracle draw -> dcfg_ok c ->
    forall rank, rank < d_W c ->
    exists s, r_out (dist_run c draw rank) = Ok s /\ length s = r_len (dist_run c draw rank)
              /\ r_len (dist_run c draw rank) = num_samples c.
Proof. exact dist_rank_lengths_equal. Qed.
Print Assumptions rank_lengths_equal.

Theorem interleave_ranks_is_prefix_or_wrap : forall c draw, len_oracle draw -> dcfg_ok c ->
    exists G, dist_global c draw = Ok G /\ length G = d_n c /\
      split_of (d_drop c) (d_W c) (num_samples c) G
               (map (fun rank => stream_of (r_out (dist_run c draw rank))) (seq 0 (d_W c))).
Proof. exact dist_interleave. Qed.
Print Assumptions interleave_ranks_is_prefix_or_wrap.

(* what wrap_take means in the two cases of split_of *)
Theorem wrap_take_is_prefix : forall (T : nat) (G : list nat), T <= length G -> wrap_take T G = firstn T G.
Proof. exact wrap_take_prefix. Qed.
Print Assumptions wrap_take_is_prefix.

Theorem wrap_take_is_wrap : forall (T : nat) (G : list nat), length G <= T ->
    wrap_take T G = G ++ wrap_take (T - length G) G.
Proof. exact wrap_take_wrap. Qed.
Print Assumptions wrap_take_is_wrap.

(* the stream of a rank is a function of the global draw (which has no rank
   argument) and of the rank's stride only *)
Theorem same_global_on_every_rank : forall c draw rank,
    r_out (dist_run c draw rank) =
    match dist_global c draw with
    | Ok G => let P := pad_or_cut c G in
              if negb (length P =? total_size c) then AssertFail
              else let s := slice3 rank (total_size c) (d_W c) P in
                   if negb (length s =? num_samples c) then AssertFail else Ok s
    | AssertFail => AssertFail
    | Runaway => Runaway
    end.
Proof. exact dist_same_global. Qed.
Print Assumptions same_global_on_every_rank.

Theorem seed_argument_is_seed_plus_epoch : forall c draw rank,
    Forall (fun s => s = (d_seed c + d_epoch c)%Z) (r_seeds (dist_run c draw rank)).
Proof. exact dist_seed_plus_epoch. Qed.
Print Assumptions seed_argument_is_seed_plus_epoch.

Theorem equal_seed_plus_epoch_reproduces : forall c1 c2 draw rank,
    d_n c1 = d_n c2 -> d_W c1 = d_W c2 -> d_shuffle c1 = d_shuffle c2 -> d_drop c1 = d_drop c2 ->
    d_rep c1 = d_rep c2 -> (d_seed c1 + d_epoch c1 = d_seed c2 + d_epoch c2)%Z ->
    dist_run c1 draw rank = dist_run c2 draw rank.
Proof. exact dist_reproducible. Qed.
Print Assumptions equal_seed_plus_epoch_reproduces.

Theorem repeats_consecutive : forall c draw G, len_oracle draw -> 1 <= d_rep c -> d_shuffle c = true ->
    dist_global c draw = Ok G ->
    repeats_consecutive_spec (d_rep c) (draw (d_seed c + d_epoch c)%Z [] (d_n c)) G.
Proof. exact dist_repeats_consecutive. Qed.
Print Assumptions repeats_consecutive.

(* ---- RandomSampler ---- *)
Theorem random_sampler_repeats_consecutive : forall c draw, len_oracle draw -> 1 <= rs_n c -> 1 <= rs_rep c ->
    (rs_rep c <> 1 \/ rs_replacement c = false) ->
    length (rand_iter c draw) = rs_n c /\
    repeats_consecutive_spec (rs_rep c) (draw (rs_seed c) [] (rs_n c)) (rand_iter c draw).
Proof. exact rand_repeats_consecutive. Qed.
Print Assumptions random_sampler_repeats_consecutive.

(* ---- WeightedSampler: equal lengths, seed = seed + epoch, ranks interleave
        into a prefix of the one multinomial draw ---- *)
Theorem weighted_rank_split : forall c draw E, len_oracle draw -> 1 <= w_W c -> w_E c = Ok E ->
    w_global c draw = Ok (draw (w_seed c + w_epoch c)%Z [] E) /\
    (forall rank, rank < w_W c ->
       exists s, r_out (w_run c draw rank) = Ok s /\ length s = r_len (w_run c draw rank)
                 /\ r_len (w_run c draw rank) = E / w_W c
                 /\ r_seeds (w_run c draw rank) = [(w_seed c + w_epoch c)%Z]) /\
    split_of true (w_W c) (E / w_W c) (draw (w_seed c + w_epoch c)%Z [] E)
             (map (fun rank => stream_of (r_out (w_run c draw rank))) (seq 0 (w_W c))).
Proof. exact w_split. Qed.
Print Assumptions weighted_rank_split.

(* ---- ClassBalancedSampler: the draw loops end, the global draw has
        num_classes * samples_per_class entries, equal lengths, seed = seed + epoch,
        ranks interleave into a prefix of it ---- *)
Theorem class_balanced_rank_split : forall c draw, perm_oracle draw -> cb_ctor_ok c = true -> 1 <= cb_W c ->
    exists G h, cb_global c draw = Ok (G, h) /\ length G = cb_E c /\
    (forall rank, rank < cb_W c ->
       exists s, r_out (cb_run c draw rank) = Ok s /\ length s = r_len (cb_run c draw rank)
                 /\ r_len (cb_run c draw rank) = cb_E c / cb_W c
                 /\ r_seeds (cb_run c draw rank) = [(cb_seed c + cb_epoch c)%Z]) /\
    split_of true (cb_W c) (cb_E c / cb_W c) G
             (map (fun rank => stream_of (r_out (cb_run c draw rank))) (seq 0 (cb_W c))).
Proof. exact cb_split. Qed.
Print Assumptions class_balanced_rank_split.

(* ---- one sampler object over several epochs: set_epoch(e) .. set_epoch(e') .. set_epoch(e), or list(sampler)
        twice without set_epoch.  The k-th list(sampler) of ANY call sequence shows exactly what a sampler shows
        whose epoch is the argument of the last set_epoch before it. ---- *)
Theorem distributed_object_history : forall c draw rank ops,
    dist_object c draw rank ops = map (fun e => dist_run (d_set_epoch c e) draw rank) (iter_epochs (d_epoch c) ops).
Proof. exact dist_object_spec. Qed.
Print Assumptions distributed_object_history.

Theorem weighted_object_history : forall c draw rank ops,
    w_object c draw rank ops = map (fun e => w_run (w_set_epoch c e) draw rank) (iter_epochs (w_epoch c) ops).
Proof. exact w_object_spec. Qed.
Print Assumptions weighted_object_history.

Theorem class_balanced_object_history : forall c draw rank ops,
    cb_object c draw rank ops = map (fun e => cb_run (cb_set_epoch c e) draw rank) (iter_epochs (cb_epoch c) ops).
Proof. exact cb_object_spec. Qed.
Print Assumptions class_balanced_object_history.

(* hence: two list(sampler) calls under the same epoch show the same *)
Theorem same_epoch_reproduces : forall (f : Z -> run) es i j e,
    nth_error es i = Some e -> nth_error es j = Some e -> nth_error (map f es) i = nth_error (map f es) j.
Proof. exact same_epoch_same_run. Qed.
Print Assumptions same_epoch_reproduces.

(* ---- shuffle=False: num_repeats > 1 is rejected (the assert in __iter__); otherwise the global draw is 0..n-1 and
        no generator is seeded or asked ---- *)
Theorem repeats_require_shuffle : forall c draw rank, d_rep c <> 1 -> d_shuffle c = false ->
    r_out (dist_run c draw rank) = AssertFail.
Proof. exact dist_repeats_need_shuffle. Qed.
Print Assumptions repeats_require_shuffle.

Theorem no_shuffle_yields_dataset_order : forall c draw, d_rep c = 1 -> d_shuffle c = false ->
    dist_global c draw = Ok (seq 0 (d_n c)) /\
    forall rank, r_seeds (dist_run c draw rank) = [] /\ r_reqs (dist_run c draw rank) = [].
Proof. exact dist_no_shuffle. Qed.
Print Assumptions no_shuffle_yields_dataset_order.

(* ---- default rank / world_size arguments: resolved from the process group as it is AT CONSTRUCTION ----
   explicit argument, else the process group's current value, else (0, 1); what was asked or constructed earlier
   in the process (EvQuery events: is_distributed() / get_rank() / get_world_size() calls, throwaway samplers) is
   irrelevant *)
Theorem rank_resolution_independent_of_history : forall g evs rank world,
    resolve_rank_world rank world (pg_after g evs)
    = resolve_rank_world rank world (pg_after g (filter (fun ev => negb (is_query ev)) evs)).
Proof. exact resolve_independent_of_history. Qed.
Print Assumptions rank_resolution_independent_of_history.

Theorem torch_rank_resolution_independent_of_history : forall g evs rank world,
    resolve_torch rank world (pg_after g evs)
    = resolve_torch rank world (pg_after g (filter (fun ev => negb (is_query ev)) evs)).
Proof. exact resolve_torch_independent_of_history. Qed.
Print Assumptions torch_rank_resolution_independent_of_history.

(* after init_process_group(rank r, world W) - whatever came before, queries since - the defaults are (r, W) *)
Theorem default_rank_world_is_current_group : forall r W evs, joined_as r W evs ->
    resolve_rank_world None None (pg_after pg_fresh evs) = (r, W).
Proof. exact resolve_after_init. Qed.
Print Assumptions default_rank_world_is_current_group.

(* explicit arguments win, also rank 0 (the repaired `rank or get_rank()`) *)
Theorem explicit_rank_world_win : forall r W g, resolve_rank_world (Some r) (Some W) g = (r, W).
Proof. exact resolve_explicit. Qed.
Print Assumptions explicit_rank_world_win.

Theorem without_group_rank_0_of_1 : forall g, is_distributed g = false -> resolve_rank_world None None g = (0, 1).
Proof. exact resolve_no_group. Qed.
Print Assumptions without_group_rank_0_of_1.

(* a sampler built with default arguments in a process that joined as (r, W) IS the sampler built with explicit
   (r, W) *)
Theorem default_arguments_are_explicit_arguments : forall r W evs, joined_as r W evs ->
    (forall c draw, w_built c None None (pg_after pg_fresh evs) draw = w_run (w_set_world c W) draw r) /\
    (forall c draw, cb_built c None None (pg_after pg_fresh evs) draw = cb_run (cb_set_world c W) draw r) /\
    (r < W -> forall c draw, dist_built c None None (pg_after pg_fresh evs) draw
                             = Some (dist_run (d_set_world c W) draw r)).
Proof. exact built_default_is_explicit. Qed.
Print Assumptions default_arguments_are_explicit_arguments.

(* hence the W processes of a group, each with a history of its own (hist r), split the one global draw *)
Theorem weighted_default_arguments_split : forall c draw E W (hist : nat -> list pg_event),
    len_oracle draw -> 1 <= W -> w_E c = Ok E ->
    (forall r, r < W -> joined_as r W (hist r)) ->
    split_of true W (E / W) (draw (w_seed c + w_epoch c)%Z [] E)
             (map (fun r => stream_of (r_out (w_built c None None (pg_after pg_fresh (hist r)) draw))) (seq 0 W)).
Proof. exact w_default_split. Qed.
Print Assumptions weighted_default_arguments_split.

Theorem class_balanced_default_arguments_split : forall c draw W (hist : nat -> list pg_event),
    perm_oracle draw -> cb_ctor_ok c = true -> 1 <= W ->
    (forall r, r < W -> joined_as r W (hist r)) ->
    exists G h, cb_global c draw = Ok (G, h) /\ length G = cb_E c /\
    split_of true W (cb_E c / W) G
             (map (fun r => stream_of (r_out (cb_built c None None (pg_after pg_fresh (hist r)) draw))) (seq 0 W)).
Proof. exact cb_default_split. Qed.
Print Assumptions class_balanced_default_arguments_split.

Theorem distributed_default_arguments_split : forall c draw W (hist : nat -> list pg_event),
    len_oracle draw -> dcfg_ok (d_set_world c W) ->
    (forall r, r < W -> joined_as r W (hist r)) ->
    exists G, dist_global c draw = Ok G /\ length G = d_n c /\
      split_of (d_drop c) W (num_samples (d_set_world c W)) G
               (map (fun r => match dist_built c None None (pg_after pg_fresh (hist r)) draw with
                              | Some m => stream_of (r_out m) | None => [] end) (seq 0 W)).
Proof. exact dist_default_split. Qed.
Print Assumptions distributed_default_arguments_split.

(* ---- non-vacuity of the premises ---- *)
Example identity_oracle_is_perm_oracle : perm_oracle (fun _ _ n => seq 0 n).
Proof. intros s h n. apply Permutation_refl. Qed.
Example identity_oracle_is_len_oracle : len_oracle (fun _ _ n => seq 0 n).
Proof. intros s h n. apply seq_length. Qed.
Example dcfg_ok_tiny_dataset :
  dcfg_ok {| d_n := 2; d_W := 5; d_shuffle := true; d_seed := 0; d_drop := false; d_rep := 2; d_epoch := 0 |}.
Proof. unfold dcfg_ok; simpl; repeat split; auto with arith. Qed.
Example tiny_dataset_streams :
  map (fun rank => r_out (dist_run {| d_n := 2; d_W := 5; d_shuffle := true; d_seed := 0; d_drop := false;
                                       d_rep := 2; d_epoch := 0 |} (fun _ _ n => seq 0 n) rank)) (seq 0 5)
  = [Ok [0]; Ok [0]; Ok [0]; Ok [0]; Ok [0]].
Proof. vm_compute. reflexivity. Qed.
Example cb_ctor_ok_example :
  cb_ctor_ok {| cb_classes := [0; 1; 1; 2]%Z; cb_dim := 3; cb_spc_arg := None; cb_shuffle := true;
                cb_seed := 0; cb_epoch := 0; cb_W := 2 |} = true.
Proof. vm_compute. reflexivity. Qed.
Example w_E_example : w_E {| w_n := 5; w_size := Some 3; w_seed := 0; w_epoch := 0; w_W := 2 |} = Ok 3.
Proof. vm_compute. reflexivity. Qed.
Example epoch_sequence_example :
  let c := {| d_n := 4; d_W := 2; d_shuffle := true; d_seed := 0; d_drop := false; d_rep := 1; d_epoch := 0 |} in
  let draw := (fun (s : Z) (_ : list nat) n => if Z.eqb s 7 then rev (seq 0 n) else seq 0 n) in
  map r_out (dist_object c draw 1 [SetEpoch 7; Iterate; Iterate; SetEpoch 1; Iterate; SetEpoch 7; Iterate])
  = [Ok [2; 0]; Ok [2; 0]; Ok [1; 3]; Ok [2; 0]]
  /\ iter_epochs (d_epoch c) [SetEpoch 7; Iterate; Iterate; SetEpoch 1; Iterate; SetEpoch 7; Iterate] = [7; 7; 1; 7]%Z.
Proof. vm_compute. split; reflexivity. Qed.
Example joined_as_example :
  joined_as 1 3 [EvQuery; EvInit 0 2; EvQuery; EvDestroy; EvQuery; EvInit 1 3; EvQuery; EvQuery].
Proof. exists [EvQuery; EvInit 0 2; EvQuery; EvDestroy; EvQuery], [EvQuery; EvQuery]. repeat split. Qed.
Example preview_then_init_example :
  let c := {| w_n := 6; w_size := None; w_seed := 0; w_epoch := 0; w_W := 0 |} in
  map (fun r => r_out (w_built c None None (pg_after pg_fresh [EvQuery; EvInit r 3]) (fun _ _ n => seq 0 n))) (seq 0 3)
  = [Ok [0; 3]; Ok [1; 4]; Ok [2; 5]]
  /\ r_out (w_built c None None (pg_after pg_fresh [EvInit 2 3; EvDestroy]) (fun _ _ n => seq 0 n)) = Ok [0; 1; 2; 3; 4; 5]
  /\ r_out (w_built c (Some 0) (Some 2) (pg_after pg_fresh [EvInit 2 3]) (fun _ _ n => seq 0 n)) = Ok [0; 2; 4].
Proof. vm_compute. repeat split. Qed.
