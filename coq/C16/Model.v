(* C16 — executable model of the label-rewriting wrappers of KappaData (repaired tree:
   fixes/C16_*.patch applied).  One mapping function per wrapper from
   (wrapped labels, constructor parameters, recorded draws) to the per-sample label
   (getitem_class) and a SEPARATE function mirroring the bulk accessor (getall_class)
   as the code computes it, plus the class-shape query (getshape_class).
   No proofs in this file.

   Conventions: labels are Z, sample indices are nat, the wrapped dataset is its label
   list `labels` (getitem_class i = nth i labels, getall_class = labels) together with its
   announced class count C (getshape_class = (C,)).  Random draws are explicit arguments
   (the recorded result of the generator call), float comparisons are shipped as their
   boolean outcome. *)
From Coq Require Import ZArith List Bool QArith.
Import ListNotations.
Open Scope Z_scope.

(* ---------- small helpers (python list idioms) ---------- *)
(* l[i] with python / numpy index semantics: a negative index counts from the end (l[-1] is the
   last element); d stands for the IndexError outside [-len, len) *)
Definition nthZ {A} (i : Z) (l : list A) (d : A) : A :=
  if i <? 0
  then (if - i <=? Z.of_nat (length l) then nth (length l - Z.to_nat (- i)) l d else d)
  else nth (Z.to_nat i) l d.

Definition zrange (n : Z) : list Z := map Z.of_nat (seq 0 (Z.to_nat n)).   (* arange(n) *)

Definition ceil_div (a b : Z) : Z := (a + b - 1) / b.                      (* math.ceil(a / b) *)

(* enumerate *)
Fixpoint mapi_from {A B} (k : nat) (f : nat -> A -> B) (l : list A) : list B :=
  match l with
  | [] => []
  | x :: r => f k x :: mapi_from (S k) f r
  end.
Definition mapi {A B} (f : nat -> A -> B) (l : list A) : list B := mapi_from 0 f l.

(* l[i] = v on a python list (no-op when out of range; python would raise) *)
Fixpoint set_nth {A} (i : nat) (v : A) (l : list A) : list A :=
  match l, i with
  | [], _ => []
  | _ :: r, O => v :: r
  | x :: r, S i' => x :: set_nth i' v r
  end.

(* counter = defaultdict(int); for cls in classes: out.append(counter[cls]); counter[cls] += 1 *)
Fixpoint idx_within_from (counter : Z -> Z) (classes : list Z) : list Z :=
  match classes with
  | [] => []
  | c :: r => counter c :: idx_within_from (fun c' => if c' =? c then counter c' + 1 else counter c') r
  end.
Definition idx_within (classes : list Z) : list Z := idx_within_from (fun _ => 0) classes.

(* einops.rearrange(l, "(s w) -> (w s)", w=W) with S = len(l) / W:  out[w*S+s] = l[s*W+w] *)
Definition rearr {A} (W S : nat) (l : list A) (d : A) : list A :=
  flat_map (fun w => map (fun s => nth (s * W + w) l d) (seq 0 S)) (seq 0 W).

(* pad to a multiple of W with the first elements, rearrange, cut the padding away
   (AllgatherClassWrapper.__init__ and KDRandomClassWrapper._gatherbug share this) *)
Definition pad_of (n W : nat) : nat := ((W - n mod W) mod W)%nat.
Definition gather_order {A} (W : nat) (l : list A) (d : A) : list A :=
  let n := length l in
  let pad := pad_of n W in
  let l1 := if (0 <? pad)%nat then l ++ firstn pad l else l in
  let l2 := rearr W (length l1 / W) l1 d in
  if (0 <? pad)%nat then firstn (length l2 - pad) l2 else l2.

Fixpoint index_of (i : nat) (l : list nat) : nat :=
  match l with
  | [] => O
  | x :: r => if Nat.eqb x i then O else S (index_of i r)
  end.

(* ---------- ClassGroupsWrapper ---------- *)
Record cg_params := { cg_cpg : Z; cg_shuffle : bool; cg_draw : list Z (* result of rng.permuted *) }.

Definition cg_table0 (C cpg : Z) : list Z :=               (* np.arange(num_clsgroups).repeat(cpg) *)
  flat_map (fun g => repeat g (Z.to_nat cpg)) (zrange (ceil_div C cpg)).
Definition cg_table (C : Z) (p : cg_params) : list Z :=
  if cg_shuffle p then cg_draw p else cg_table0 C (cg_cpg p).
Definition cg_map_cls (C : Z) (p : cg_params) (labels : list Z) (idx : nat) (cls : Z) : Z :=
  let cls_group := nthZ cls (cg_table C p) 0 in
  let idx_within_cls_group := (nth idx (idx_within labels) 0) mod (cg_cpg p) in
  cls_group * cg_cpg p + idx_within_cls_group.
Definition cg_getitem C p labels (idx : nat) : Z := cg_map_cls C p labels idx (nth idx labels 0).
Definition cg_getall C p labels : list Z := mapi (cg_map_cls C p labels) labels.
Definition cg_shape (C : Z) (p : cg_params) : Z := C.       (* not overridden: delegated *)

(* ---------- RandomSuperclassWrapper ---------- *)
Record sc_params := { sc_cps : Z; sc_splits : Z; sc_shuffle : bool;
                      sc_perm : list Z  (* rng.permutation(C) *);
                      sc_perm2 : list nat (* rng.permutation(len(classes)), drawn only if splits > 1 *) }.

Definition sc_og (C : Z) (p : sc_params) : Z := ceil_div C (sc_cps p).
Definition sc_permv (C : Z) (p : sc_params) : list Z := if sc_shuffle p then sc_perm p else zrange C.
Definition sc_iw (p : sc_params) (labels : list Z) : list Z :=
  let n := length labels in
  let perm := if sc_shuffle p then sc_perm2 p else seq 0 n in
  let classes := map (fun j => nth j labels 0) perm in          (* classes[perm] *)
  let iw := idx_within classes in
  map (fun i => nth (index_of i perm) iw 0) (seq 0 n).          (* iw[argsort(perm)] *)
Definition sc_map_cls (C : Z) (p : sc_params) (labels : list Z) (idx : nat) (cls : Z) : Z :=
  let c := nthZ cls (sc_permv C p) 0 / sc_cps p in
  if 1 <? sc_splits p
  then c + (nth idx (sc_iw p labels) 0) mod (sc_splits p) * sc_og C p
  else c.
Definition sc_getitem C p labels (idx : nat) : Z := sc_map_cls C p labels idx (nth idx labels 0).
Definition sc_getall C p labels : list Z := mapi (sc_map_cls C p labels) labels.
Definition sc_shape (C : Z) (p : sc_params) : Z := sc_og C p * sc_splits p.

(* ---------- SwapLabelWrapper ---------- *)
Record sw_params := { sw_apply : list bool (* rng.random(n) < p, outcome per sample *);
                      sw_new : list Z      (* rng.integers(0, C, n) *) }.
Fixpoint where3 (a : list bool) (x y : list Z) : list Z :=      (* np.where(a, x, y) *)
  match a, x, y with
  | b :: a', u :: x', v :: y' => (if b then u else v) :: where3 a' x' y'
  | _, _, _ => []
  end.
Definition sw_classes (p : sw_params) (labels : list Z) : list Z := where3 (sw_apply p) (sw_new p) labels.
Definition sw_getitem p labels (idx : nat) : Z := nth idx (sw_classes p labels) 0.
Definition sw_getall p labels : list Z := sw_classes p labels.

(* ---------- OverwriteClassesWrapper (getall_class added by the D19 repair) ---------- *)
Definition ow_getitem (classes : list Z) (idx : nat) : Z := nth idx classes 0.
Definition ow_getall (classes : list Z) : list Z := classes.

(* ---------- AllgatherClassWrapper (getall_class as repaired for D18) ---------- *)
Definition ag_indices (n W : nat) : list nat := gather_order W (seq 0 n) O.
Definition ag_getitem (W : nat) (labels : list Z) (idx : nat) : Z :=
  nth (nth idx (ag_indices (length labels) W) O) labels 0.
Definition ag_getall (W : nat) (labels : list Z) : list Z :=
  map (fun idx => ag_getitem W labels idx) (seq 0 (length labels)).

(* ---------- KDPseudoLabelWrapper ---------- *)
Inductive pl_params :=
| PLHard (pl : list Z)                                  (* 1-d table *)
| PLSoft (am : list Z)                                  (* 2-d table, row argmax *)
| PLThr (am : list Z)                                   (* 2-d table with a threshold: row argmax, and the outcome of *)
        (ref : list bool)                               (*   softmax(row).max() > threshold per row: as the rule says (float32) *)
        (dec_item : list bool)                          (*   as the per-sample accessor decided it (recorded on that path) *)
        (dec_bulk : list bool)                          (*   as the bulk accessor decided it (recorded on that path) *)
| PLTopk (topk : list (list Z)) (choice : list Z).      (* row.topk(k) indices; drawn choice per sample *)

(* `if pseudo_label_probs[argmax] > self.threshold: return argmax` / `return -1`, the float
   comparison shipped as its outcome *)
Definition thr_label (am : list Z) (dec : list bool) (idx : nat) : Z :=
  if nth idx dec false then nth idx am 0 else -1.

Definition pl_getitem (p : pl_params) (idx : nat) : Z :=
  match p with
  | PLHard pl => nth idx pl 0
  | PLSoft am => nth idx am 0
  | PLThr am _ dec_item _ => thr_label am dec_item idx
  | PLTopk topk choice => nthZ (nth idx choice 0) (nth idx topk []) 0
  end.
Definition pl_getall (p : pl_params) (n : nat) : option (list Z) :=
  match p with
  | PLHard pl => Some pl
  | PLSoft am => Some am
  (* D20 repair: `[self.getitem_class(idx) for idx in range(len(self))]` -- the bulk accessor evaluates
     the threshold comparison again, for every row; its outcomes are recorded separately *)
  | PLThr am _ _ dec_bulk => Some (map (thr_label am dec_bulk) (seq 0 n))
  | PLTopk _ _ => None                                                  (* raises NotImplementedError *)
  end.

(* ---------- KDRandomClassWrapper ---------- *)
Inductive rc_mode :=
| RCRandom (draw : list Z)          (* torch.randint(num_classes, (size,)) *)
| RCRandperm (perm : list Z)        (* torch.randperm(num_classes) *)
| RCGatherbug (W : nat).

Definition rc_classes (C : Z) (n : nat) (m : rc_mode) : list Z :=
  match m with
  | RCRandom d => d
  | RCRandperm p => firstn n (concat (repeat p (Z.to_nat (ceil_div (Z.of_nat n) C))))
  | RCGatherbug W =>
      let spc := Z.to_nat (ceil_div (Z.of_nat n) C) in
      let classes := firstn n (flat_map (fun c => repeat c spc) (zrange C)) in
      firstn n (gather_order W classes 0)
  end.
Definition rc_getitem C n m (idx : nat) : Z := nth idx (rc_classes C n m) 0.
Definition rc_getall C n m : list Z := rc_classes C n m.

(* ---------- SemiWrapper (getall_class as repaired for D21: works on a copy) ---------- *)
Definition se_semi (k : nat) (perm : list nat) : list nat := firstn k perm.   (* rng.permutation(n)[:k] *)
Definition se_getitem (k : nat) (perm : list nat) (labels : list Z) (idx : nat) : Z :=
  if existsb (Nat.eqb idx) (se_semi k perm) then -1 else nth idx labels 0.
Definition se_getall (k : nat) (perm : list nat) (labels : list Z) : list Z :=
  fold_left (fun cls i => set_nth i (-1) cls) (se_semi k perm) labels.

(* ---------- all identity-changing wrappers under one roof ---------- *)
Inductive wspec :=
| WClassGroups (p : cg_params)
| WSuperclass (p : sc_params)
| WSwap (p : sw_params)
| WOverwrite (classes : list Z)
| WAllgather (W : nat)
| WPseudo (p : pl_params)
| WRandomClass (num_classes : Z) (m : rc_mode)
| WSemi (k : nat) (perm : list nat).

Definition w_getitem (w : wspec) (C : Z) (labels : list Z) (idx : nat) : Z :=
  match w with
  | WClassGroups p => cg_getitem C p labels idx
  | WSuperclass p => sc_getitem C p labels idx
  | WSwap p => sw_getitem p labels idx
  | WOverwrite cl => ow_getitem cl idx
  | WAllgather W => ag_getitem W labels idx
  | WPseudo p => pl_getitem p idx
  | WRandomClass nc m => rc_getitem nc (length labels) m idx
  | WSemi k perm => se_getitem k perm labels idx
  end.

Definition w_getall (w : wspec) (C : Z) (labels : list Z) : option (list Z) :=
  match w with
  | WClassGroups p => Some (cg_getall C p labels)
  | WSuperclass p => Some (sc_getall C p labels)
  | WSwap p => Some (sw_getall p labels)
  | WOverwrite cl => Some (ow_getall cl)
  | WAllgather W => Some (ag_getall W labels)
  | WPseudo p => pl_getall p (length labels)
  | WRandomClass nc m => Some (rc_getall nc (length labels) m)
  | WSemi k perm => Some (se_getall k perm labels)
  end.

Definition w_shape (w : wspec) (C : Z) : Z :=
  match w with
  | WSuperclass p => sc_shape C p
  | WRandomClass nc _ => nc
  | _ => C
  end.

(* [w.getitem_class(i) for i in range(len(w))] *)
Definition w_items (w : wspec) (C : Z) (labels : list Z) : list Z :=
  map (w_getitem w C labels) (seq 0 (length labels)).

(* ---------- re-encoding wrappers (rationals instead of floats) ---------- *)
Inductive enc := EInt (y : Z) | EVec (v : list Q) | EScalar (q : Q).

(* torch.full((n,), b); v[y] = a *)
Definition spike (a b : Q) (y n : nat) : list Q := set_nth y a (repeat b n).

Definition ls_vec (sm : Q) (C y : Z) : list Q :=
  let off := (sm / inject_Z C)%Q in
  let on := (1 - sm + off)%Q in
  spike on off (Z.to_nat y) (Z.to_nat C).

Definition ls_getitem (sm : Q) (C y : Z) : enc :=
  if Qeq_bool sm 0 then EInt y else
  if y =? -1 then EVec (repeat (-1)%Q (Z.to_nat C)) else
  if C =? 1 then
    let off := (sm / 2)%Q in
    if 0 <? y then EScalar (inject_Z y - off)%Q else EScalar (inject_Z y + off)%Q
  else EVec (ls_vec sm C y).

Definition oh_vec (C y : Z) : list Q := spike 1%Q 0%Q (Z.to_nat y) (Z.to_nat C).   (* one_hot(y, C).float() *)
(* repaired (fixes/C16_onehot_unlabeled.patch): an unlabeled sample keeps the marker, as in ls_getitem *)
Definition oh_getitem (C y : Z) : enc :=
  if y =? -1 then EVec (repeat (-1)%Q (Z.to_nat C)) else EVec (oh_vec C y).

Inductive espec := ESmooth (sm : Q) | EOneHot.
Definition e_getitem (e : espec) (C : Z) (labels : list Z) (idx : nat) : enc :=
  match e with
  | ESmooth sm => ls_getitem sm C (nth idx labels 0)
  | EOneHot => oh_getitem C (nth idx labels 0)
  end.
Definition e_getall (e : espec) (labels : list Z) : list Z := labels.     (* not overridden: delegated *)

(* ---------- a wrapped dataset as a whole ---------- *)
(* A dataset offers items by name: the label ("class") and any number of others (x, index, ...).
   Every wrapper of this file derives from KDWrapper, whose __getattr__ forwards every accessor the
   wrapper's own classes do not define to the wrapped dataset; the wrappers define the class
   accessors only (checked structurally on the real classes by harness/c16.py:shadowed_accessors). *)
Inductive item_name := IClass | IOther (name : nat).
Definition dataset := item_name -> nat -> Z.        (* getitem_<item>(idx) *)
Definition wrap (w : wspec) (C : Z) (labels : list Z) (ds : dataset) : dataset :=
  fun it idx => match it with
                | IClass => w_getitem w C labels idx
                | IOther _ => ds it idx
                end.

(* ---------- constructions and accessor calls on SHARED objects ---------- *)
(* A dataset object keeps its labels in a storage (list / ndarray / tensor).  Its bulk accessor hands out either
   that storage itself (`return self.targets`; getall_as_numpy / getall_as_tensor pass an ndarray / tensor on
   without copying) or a copy.  A constructor or accessor that writes into the object it was handed therefore
   writes into the wrapped dataset exactly when the storage itself was handed out.
   [wr w C labels] = the (position, value) assignments a construction of wrapper w performs on the bulk object it
   received.  The code that exists performs none: every wrapper derives a table of its own (np.where, tolist(),
   list(...), a copy) and leaves what it received alone -- [no_writes]. *)
Inductive handout := HOwn | HCopy.
Definition writes := wspec -> Z -> list Z -> list (nat * Z).
Definition no_writes : writes := fun _ _ _ => [].

Definition apply_writes (h : handout) (ws : list (nat * Z)) (stored : list Z) : list Z :=
  match h with
  | HOwn => fold_left (fun l p => set_nth (fst p) (snd p) l) ws stored
  | HCopy => stored
  end.
(* the wrapped dataset's storage after one construction on it *)
Definition construct_gen (wr : writes) (h : handout) (C : Z) (stored : list Z) (w : wspec) : list Z :=
  apply_writes h (wr w C stored) stored.
(* ... after a whole construction history (wrappers built one after the other on the same dataset object) *)
Definition history_gen (wr : writes) (h : handout) (C : Z) (hist : list wspec) (stored : list Z) : list Z :=
  fold_left (construct_gen wr h C) hist stored.
(* what wrapper w shows when it is built on the dataset object AFTER the history *)
Definition items_after_gen (wr : writes) (h : handout) (C : Z) (hist : list wspec) (w : wspec) (stored : list Z) : list Z :=
  w_items w C (history_gen wr h C hist stored).
Definition getall_after_gen (wr : writes) (h : handout) (C : Z) (hist : list wspec) (w : wspec) (stored : list Z)
  : option (list Z) :=
  w_getall w C (history_gen wr h C hist stored).

(* the code that exists *)
Definition construct := construct_gen no_writes.
Definition history := history_gen no_writes.
Definition items_after := items_after_gen no_writes.
Definition getall_after := getall_after_gen no_writes.

(* an IMPURE variant for contrast (not the code that exists): a swap-label constructor that assigns the swapped
   labels through the boolean mask into the array it fetched (`classes[apply] = new[apply]`) *)
Fixpoint masked_writes (k : nat) (a : list bool) (x : list Z) : list (nat * Z) :=
  match a, x with
  | b :: a', u :: x' => (if b then [(k, u)] else []) ++ masked_writes (S k) a' x'
  | _, _ => []
  end.
Definition swap_writes_in_place : writes :=
  fun w _ _ => match w with WSwap p => masked_writes 0 (sw_apply p) (sw_new p) | _ => [] end.
