(* Proofs for C13, part 2: SemiSampler. *)
From Coq Require Import ZArith List Bool Arith Lia Permutation.
Import ListNotations.
From KD Require Import C12.Model C12.Spec C12.Proofs C13.Model C13.Spec C13.ProofsCB.

(* ------------------------------------------------------------------ *)
(* lists: aligned blocks of a concatenation of equally long lists       *)
(* ------------------------------------------------------------------ *)
Lemma skipn_nth_cons : forall {B} (l : list B) b d, b < length l -> skipn b l = nth b l d :: skipn (S b) l.
Proof.
  induction l as [|a l IH]; intros [|b] d H; simpl in *; try lia; auto.
  apply IH. lia.
Qed.

Section Blocks.
  Context {A : Type}.
  Implicit Types l : list A.

  Lemma concat_length_const : forall k (ps : list (list A)),
      Forall (fun p => length p = k) ps -> length (concat ps) = length ps * k.
  Proof. intros k ps H. induction H; simpl; auto. rewrite app_length. lia. Qed.

  Lemma skipn_concat : forall k (ps : list (list A)), Forall (fun p => length p = k) ps ->
      forall m, skipn (m * k) (concat ps) = concat (skipn m ps).
  Proof.
    intros k ps H. induction H as [|p ps Hp H IH]; intros [|m]; auto.
    - simpl. destruct (m * k); destruct k; reflexivity.
    - cbn [concat skipn]. rewrite skipn_app. rewrite skipn_all2 by (simpl; lia).
      replace (S m * k - length p) with (m * k) by (simpl; lia). simpl. apply IH.
  Qed.

  Lemma block_concat : forall k (ps : list (list A)) b, Forall (fun p => length p = k) ps -> b < length ps ->
      block k b (concat ps) = nth b ps [].
  Proof.
    intros k ps b H Hb. unfold block. rewrite skipn_concat by auto.
    rewrite (skipn_nth_cons ps b []) by auto. cbn [concat].
    assert (length (nth b ps []) = k) as Hl.
    { rewrite Forall_forall in H. apply H. apply nth_In. auto. }
    rewrite firstn_app, Hl, Nat.sub_diag, firstn_O, app_nil_r. rewrite <- Hl. apply firstn_all.
  Qed.

  Lemma block_app_prefix : forall k b l t, (b + 1) * k <= length l -> block k b (l ++ t) = block k b l.
  Proof.
    intros k b l t H. unfold block. rewrite skipn_app.
    replace (b * k - length l) with 0 by lia. rewrite skipn_O.
    rewrite firstn_app, skipn_length.
    replace (k - (length l - b * k)) with 0 by lia. rewrite firstn_O, app_nil_r. reflexivity.
  Qed.

  Lemma In_skipn : forall m l x, In x (skipn m l) -> In x l.
  Proof. intros m l x H. rewrite <- (firstn_skipn m l). apply in_or_app. auto. Qed.
End Blocks.

(* prefix of perm ++ perm ++ ...  ==>  aligned blocks are permutations, the rest has no repetition *)
Lemma cycles_blocks : forall pool picks, pool <> [] -> NoDup pool ->
    cycles_through pool picks -> blocks_exhaust pool picks.
Proof.
  intros pool picks Hne Hnd (ps & tail & HF & Hc). unfold blocks_exhaust.
  set (k := length pool).
  assert (1 <= k) as Hk by (unfold k; destruct pool; simpl; [congruence|lia]).
  assert (Forall (fun p => length p = k) ps) as Hlen.
  { eapply Forall_impl; [|exact HF]. intros p Hp. apply (Permutation_length Hp). }
  pose proof (concat_length_const k ps Hlen) as Hcl. rewrite Hc, app_length in Hcl.
  split; [|split].
  - intros b Hb. rewrite <- (block_app_prefix k b picks tail Hb), <- Hc.
    assert (b < length ps) as Hbl by nia.
    rewrite block_concat by auto. rewrite Forall_forall in HF. apply HF. apply nth_In. auto.
  - set (m := length picks / k).
    assert (m * k <= length picks /\ length picks - m * k < k) as [Hm1 Hm2] by (apply floor_div_bounds; auto).
    assert (skipn (m * k) picks ++ tail = concat (skipn m ps)) as E.
    { rewrite <- (skipn_concat k) by auto. rewrite Hc, skipn_app.
      replace (m * k - length picks) with 0 by lia. rewrite skipn_O. reflexivity. }
    destruct (skipn m ps) as [|p rest] eqn:Es.
    + simpl in E. apply app_eq_nil in E. destruct E as [-> _]. constructor.
    + assert (In p ps) as Hp by (apply (In_skipn m); rewrite Es; left; auto).
      rewrite Forall_forall in HF, Hlen. pose proof (HF p Hp) as Hperm. pose proof (Hlen p Hp) as Hlp.
      set (T := skipn (m * k) picks) in *.
      assert (length T < k) as HT by (unfold T; rewrite skipn_length; lia).
      assert (T = firstn (length T) p) as ->.
      { apply (f_equal (firstn (length T))) in E. cbn [concat] in E.
        rewrite !firstn_app, firstn_all, Nat.sub_diag, firstn_O, app_nil_r in E.
        replace (length T - length p) with 0 in E by lia. rewrite firstn_O, app_nil_r in E. exact E. }
      apply NoDup_firstn. apply (Permutation_NoDup (Permutation_sym Hperm)). exact Hnd.
  - apply Forall_forall. intros x Hx.
    assert (In x (concat ps)) as Hin by (rewrite Hc; apply in_or_app; auto).
    apply in_concat in Hin. destruct Hin as [p [Hp Hxp]].
    rewrite Forall_forall in HF. apply (Permutation_in _ (HF p Hp)). exact Hxp.
Qed.

(* ------------------------------------------------------------------ *)
(* the loop                                                             *)
(* ------------------------------------------------------------------ *)
Section Loop.
  Variable g : list nat -> nat -> list nat.
  Variables L U : nat.
  Variables lab unl : list nat.
  Variable P : nat -> bool.                                 (* "is a labeled sample" *)
  Hypothesis Hg : forall h k, Permutation (g h k) (seq 0 k).   (* contract of randperm *)
  Hypothesis Hlab : lab <> [].
  Hypothesis Hunl : unl <> [].
  Hypothesis HPl : Forall (fun x => P x = true) lab.
  Hypothesis HPu : Forall (fun x => P x = false) unl.

  (* next(iterator): from the current permutation, or from a fresh one *)
  Lemma take_spec : forall k buf h, 1 <= k -> Forall (fun p => p < k) buf ->
      exists p buf' h' ps, take g k buf h = Ok (p, buf', h') /\ p < k /\ Forall (fun p => p < k) buf' /\
        Forall (fun q => Permutation q (seq 0 k)) ps /\ buf ++ concat ps = p :: buf'.
  Proof.
    intros k buf h Hk Hb. unfold take. destruct buf as [|p buf'].
    - pose proof (Hg h k) as Hp. destruct (g h k) as [|p buf'] eqn:E.
      + apply Permutation_length in Hp. rewrite seq_length in Hp. simpl in Hp. lia.
      + pose proof (perm_entries_lt k _ Hp) as Hlt. inversion Hlt; subst.
        exists p, buf', (h ++ [k]), [p :: buf']. repeat split; auto. simpl. rewrite app_nil_r. reflexivity.
    - inversion Hb; subst. exists p, buf', h, []. repeat split; auto. simpl. rewrite app_nil_r. reflexivity.
  Qed.

  Lemma nonempty_length : forall (l : list nat), l <> [] -> 1 <= length l.
  Proof. intros [|] H; simpl; [congruence|lia]. Qed.

  Lemma semi_loop_spec : forall steps i bl bu h,
      Forall (fun p => p < length lab) bl -> Forall (fun p => p < length unl) bu ->
      exists s h' lpos upos bl' bu' psl psu,
        semi_loop g L U lab unl steps i bl bu h = Ok (s, h') /\
        length s = steps /\
        (forall j x, nth_error s j = Some x -> if (i + j) mod (L + U) <? L then In x lab else In x unl) /\
        filter P s = gather lab lpos /\ filter (fun x => negb (P x)) s = gather unl upos /\
        bl ++ concat psl = lpos ++ bl' /\ bu ++ concat psu = upos ++ bu' /\
        Forall (fun q => Permutation q (seq 0 (length lab))) psl /\
        Forall (fun q => Permutation q (seq 0 (length unl))) psu.
  Proof.
    induction steps as [|steps IH]; intros i bl bu h Hbl Hbu.
    - exists [], h, [], [], bl, bu, [], []. simpl. rewrite !app_nil_r. repeat split; auto.
      intros [|j] x Hx; discriminate.
    - cbn [semi_loop]. destruct (i mod (L + U) <? L) eqn:Epos.
      + destruct (take_spec (length lab) bl h (nonempty_length lab Hlab) Hbl)
          as (p & bl1 & h1 & ps1 & Et & Hp & Hbl1 & Hps1 & Ecat).
        rewrite Et.
        destruct (IH (S i) bl1 bu h1 Hbl1 Hbu)
          as (s & h' & lpos & upos & bl' & bu' & psl & psu & Erun & Hlen & Hpat & Hfl & Hfu & Hcl & Hcu & Hpl & Hpu).
        rewrite Erun.
        assert (In (nth p lab 0) lab) as Hin by (apply nth_In; auto).
        assert (P (nth p lab 0) = true) as HP by (rewrite Forall_forall in HPl; auto).
        exists (nth p lab 0 :: s), h', (p :: lpos), upos, bl', bu', (ps1 ++ psl), psu.
        split; [reflexivity|]. split; [simpl; lia|]. split; [|split; [|split; [|split; [|split; [|split]]]]]; auto.
        * intros [|j] x Hx; simpl in Hx.
          -- inversion Hx; subst. rewrite Nat.add_0_r, Epos. exact Hin.
          -- replace (i + S j) with (S i + j) by lia. apply Hpat. exact Hx.
        * simpl. rewrite HP, Hfl. reflexivity.
        * simpl. rewrite HP. simpl. exact Hfu.
        * rewrite concat_app, app_assoc, Ecat. simpl. rewrite Hcl. reflexivity.
        * apply Forall_app. auto.
      + destruct (take_spec (length unl) bu h (nonempty_length unl Hunl) Hbu)
          as (p & bu1 & h1 & ps1 & Et & Hp & Hbu1 & Hps1 & Ecat).
        rewrite Et.
        destruct (IH (S i) bl bu1 h1 Hbl Hbu1)
          as (s & h' & lpos & upos & bl' & bu' & psl & psu & Erun & Hlen & Hpat & Hfl & Hfu & Hcl & Hcu & Hpl & Hpu).
        rewrite Erun.
        assert (In (nth p unl 0) unl) as Hin by (apply nth_In; auto).
        assert (P (nth p unl 0) = false) as HP by (rewrite Forall_forall in HPu; auto).
        exists (nth p unl 0 :: s), h', lpos, (p :: upos), bl', bu', psl, (ps1 ++ psu).
        split; [reflexivity|]. split; [simpl; lia|]. split; [|split; [|split; [|split; [|split; [|split]]]]]; auto.
        * intros [|j] x Hx; simpl in Hx.
          -- inversion Hx; subst. rewrite Nat.add_0_r, Epos. exact Hin.
          -- replace (i + S j) with (S i + j) by lia. apply Hpat. exact Hx.
        * simpl. rewrite HP. exact Hfl.
        * simpl. rewrite HP, Hfu. reflexivity.
        * rewrite concat_app, app_assoc, Ecat. simpl. rewrite Hcu. reflexivity.
        * apply Forall_app. auto.
  Qed.

  (* positions drawn from permutations of 0..k-1  ==>  samples cycle through the pool *)
  Lemma gather_cycles : forall pool pos buf ps,
      concat ps = pos ++ buf -> Forall (fun q => Permutation q (seq 0 (length pool))) ps ->
      cycles_through pool (gather pool pos).
  Proof.
    intros pool pos buf ps Hc HF. exists (map (gather pool) ps), (gather pool buf). split.
    - apply Forall_forall. intros q Hq. apply in_map_iff in Hq. destruct Hq as [q' [<- Hq']].
      rewrite Forall_forall in HF. apply gather_perm. auto.
    - rewrite <- gather_app, <- Hc. unfold gather. rewrite concat_map. reflexivity.
  Qed.

  Lemma semi_loop_epoch : forall steps,
      exists s h', semi_loop g L U lab unl steps 0 [] [] [] = Ok (s, h') /\
        length s = steps /\
        (forall j x, nth_error s j = Some x -> if j mod (L + U) <? L then In x lab else In x unl) /\
        cycles_through lab (filter P s) /\ cycles_through unl (filter (fun x => negb (P x)) s).
  Proof.
    intro steps.
    destruct (semi_loop_spec steps 0 [] [] [] (Forall_nil _) (Forall_nil _))
      as (s & h' & lpos & upos & bl' & bu' & psl & psu & Erun & Hlen & Hpat & Hfl & Hfu & Hcl & Hcu & Hpl & Hpu).
    exists s, h'. split; auto. split; auto. split; [exact Hpat|].
    rewrite Hfl, Hfu. simpl in Hcl, Hcu. split; eapply gather_cycles; eauto.
  Qed.
End Loop.

(* ------------------------------------------------------------------ *)
(* the sampler                                                          *)
(* ------------------------------------------------------------------ *)
Lemma labeled_idxs_In : forall classes x, In x (labeled_idxs classes) -> x < length classes /\ labeled classes x = true.
Proof.
  intros classes x H. unfold labeled_idxs in H. apply filter_In in H. destruct H as [Hs H]. apply in_seq in Hs.
  split; [lia|]. unfold labeled, cls, is_unl in *. rewrite (nth_indep classes (-1)%Z 0%Z) by lia. exact H.
Qed.

Lemma unlabeled_idxs_In : forall classes x, In x (unlabeled_idxs classes) -> x < length classes /\ labeled classes x = false.
Proof.
  intros classes x H. unfold unlabeled_idxs in H. apply filter_In in H. destruct H as [Hs H]. apply in_seq in Hs.
  split; [lia|]. unfold labeled, cls, is_unl in *. rewrite (nth_indep classes (-1)%Z 0%Z) by lia. rewrite H. reflexivity.
Qed.

Lemma labeled_idxs_pool : forall classes, labeled_idxs classes = labeled_pool classes.
Proof.
  intros classes. unfold labeled_idxs, labeled_pool. apply filter_ext_in. intros x Hx. apply in_seq in Hx.
  unfold labeled, cls, is_unl. rewrite (nth_indep classes (-1)%Z 0%Z) by lia. reflexivity.
Qed.

Lemma unlabeled_idxs_pool : forall classes, unlabeled_idxs classes = unlabeled_pool classes.
Proof.
  intros classes. unfold unlabeled_idxs, unlabeled_pool. apply filter_ext_in. intros x Hx. apply in_seq in Hx.
  unfold labeled, cls, is_unl. rewrite (nth_indep classes (-1)%Z 0%Z) by lia. rewrite negb_involutive. reflexivity.
Qed.

Definition mode_of (m : lmode) : option length_mode :=
  match m with MLabeled => Some ByLabeled | MUnlabeled => Some ByUnlabeled | MAll => Some ByAll | MOther => None end.

Lemma semi_ctor_pools : forall c, semi_ctor_ok c = true ->
    labeled_idxs (se_classes c) <> [] /\ unlabeled_idxs (se_classes c) <> [] /\ 1 <= se_L c /\ 1 <= se_U c /\
    exists m, mode_of (se_mode c) = Some m.
Proof.
  intros c H. unfold semi_ctor_ok in H.
  apply andb_prop in H. destruct H as [H Hp]. apply andb_prop in Hp. destruct Hp as [Hp1 Hp2].
  apply andb_prop in H. destruct H as [H Hm]. apply andb_prop in H. destruct H as [HL HU].
  apply Nat.leb_le in HL. apply Nat.leb_le in HU. apply Nat.ltb_lt in Hp1. apply Nat.ltb_lt in Hp2.
  repeat split; auto.
  - intro E. rewrite E in Hp1. simpl in Hp1. lia.
  - intro E. rewrite E in Hp2. simpl in Hp2. lia.
  - destruct (se_mode c); try discriminate; eexists; reflexivity.
Qed.

(* the epoch length follows the documented length mode *)
Lemma semi_length_mode : forall c, semi_ctor_ok c = true ->
    exists m, mode_of (se_mode c) = Some m /\
      semi_len c = epoch_length m (length (labeled_pool (se_classes c))) (length (unlabeled_pool (se_classes c)))
                                (se_L c) (se_U c) / se_W c.
Proof.
  intros c H. destruct (semi_ctor_pools c H) as (_ & _ & _ & _ & m & Hm). exists m. split; auto.
  unfold semi_len, semi_E, epoch_length, chunks. rewrite labeled_idxs_pool, unlabeled_idxs_pool.
  destruct (se_mode c); inversion Hm; subst; reflexivity.
Qed.

(* everything C13 says about one rank's epoch of the semi-supervised sampler *)
Lemma semi_epoch : forall c rank_seed epoch_seed draw rank, perm_oracle draw -> semi_ctor_ok c = true ->
    let classes := se_classes c in
    let r := semi_run c rank_seed epoch_seed draw rank in
    exists s, r_out r = Ok s /\ length s = r_len r /\ r_len r = semi_len c /\
      alternation classes (se_L c) (se_U c) s /\
      cycles_through (labeled_pool classes) (labeled_picks classes s) /\
      cycles_through (unlabeled_pool classes) (unlabeled_picks classes s) /\
      blocks_exhaust (labeled_pool classes) (labeled_picks classes s) /\
      blocks_exhaust (unlabeled_pool classes) (unlabeled_picks classes s) /\
      r_seeds r = [Z.of_nat rank; se_epoch c; (se_seed c + rank_seed + epoch_seed)%Z].
Proof.
  intros c rs es draw rank Hd Hc classes r.
  destruct (semi_ctor_pools c Hc) as (Hl & Hu & HL & HU & _).
  assert (Forall (fun x => labeled classes x = true) (labeled_idxs classes)) as HPl
      by (apply Forall_forall; intros x Hx; apply labeled_idxs_In; auto).
  assert (Forall (fun x => labeled classes x = false) (unlabeled_idxs classes)) as HPu
      by (apply Forall_forall; intros x Hx; apply unlabeled_idxs_In; auto).
  destruct (semi_loop_epoch (draw (semi_gen_seed c rs es)) (se_L c) (se_U c)
              (labeled_idxs classes) (unlabeled_idxs classes) (labeled classes)
              (Hd _) Hl Hu HPl HPu (semi_len c)) as (s & h' & Erun & Hlen & Hpat & Hcl & Hcu).
  unfold r, semi_run. rewrite Hc. unfold semi_iter. fold classes. rewrite Erun. simpl.
  exists s. split; auto. split; auto. split; auto.
  fold (labeled_picks classes s) in Hcl. fold (unlabeled_picks classes s) in Hcu.
  rewrite labeled_idxs_pool in Hcl. rewrite unlabeled_idxs_pool in Hcu.
  split; [|split; [|split; [|split; [|split]]]]; auto.
  - intros i x Hx. specialize (Hpat i x Hx). destruct (i mod (se_L c + se_U c) <? se_L c).
    + apply labeled_idxs_In. exact Hpat.
    + apply unlabeled_idxs_In. exact Hpat.
  - apply cycles_blocks; auto.
    + rewrite <- labeled_idxs_pool. exact Hl.
    + apply NoDup_filter, seq_NoDup.
  - apply cycles_blocks; auto.
    + rewrite <- unlabeled_idxs_pool. exact Hu.
    + apply NoDup_filter, seq_NoDup.
Qed.

(* equally long on every rank, whatever the rank's seeds and draws are *)
Lemma semi_equal_length : forall c rs1 es1 rs2 es2 draw1 draw2 rank1 rank2,
    perm_oracle draw1 -> perm_oracle draw2 -> semi_ctor_ok c = true ->
    exists s1 s2, r_out (semi_run c rs1 es1 draw1 rank1) = Ok s1 /\ r_out (semi_run c rs2 es2 draw2 rank2) = Ok s2 /\
                  length s1 = length s2 /\ length s1 = semi_len c.
Proof.
  intros c rs1 es1 rs2 es2 draw1 draw2 rank1 rank2 H1 H2 Hc.
  destruct (semi_epoch c rs1 es1 draw1 rank1 H1 Hc) as (s1 & E1 & L1 & L1' & _).
  destruct (semi_epoch c rs2 es2 draw2 rank2 H2 Hc) as (s2 & E2 & L2 & L2' & _).
  exists s1, s2. repeat split; auto; congruence.
Qed.
