"""C04 — interleaved scheduler: main stream, batch cutting and stopping point."""
from . import interleaved as I
from .common import coq

ID = "C04"
COQ_FILES = I.COQ_FILES + ["C04/PropertyC04.v"]
COQ_PRELUDE = I.COQ_PRELUDE
COQ_CHECK = "check_c04"
COQ_CASE_TYPE = "case_t"
TRUSTED = I.TRUSTED
ASSUMPTIONS = ["main sampler yields len(sampler) indices per epoch", "Python int arithmetic = Z arithmetic"]
RULE = ("random geometries N in 1..40 (thorough ..79), B<=N incl. 1 and N, drop_last on/off, drop_last_batch_size "
        "multiples of B, three budget kinds around multiples of epoch/update/batch sizes, 0-4 configs, optional "
        "resume; non-trivial = at least 2 updates; distinct by (N,B,drop_last,D,budget,start,#configs)")
gen_cases = I.gen_cases
search_cases = I.search_cases
shrink = I.shrink
run_impl = I.run_impl


def coq_applicable(case, obs):
    return "harness_exception" not in obs


def coq_case(case, obs):
    return coq(I.coq_case_common(case, obs))


def main_proj(case, log):
    return [ev[:3] for ev in log if ev[0] == "E" or ev[2] < case["dsN"]]


def oracle(case, obs):
    if "harness_exception" in obs:
        return "harness exception: " + obs["harness_exception"] + obs.get("tb", "")
    e0 = I.start_epoch_of(case)
    if isinstance(e0, str) or obs["result"] in ("NotImplementedError",):
        return None  # the constructor's answer to a checkpoint is C06's business
    if obs["result"] == "AssertionError" and not obs["log"]:
        return None
    if obs["result"] == "RUNAWAY":
        return f"stream does not end (more than {I.MAX_EVENTS} events)"
    if obs["result"] != "ok":
        return "iteration raised " + obs["result"]
    exp = I.spec_stream(case, e0)
    a, b = main_proj(case, exp), main_proj(case, obs["log"])
    if a != b:
        k = next((i for i in range(min(len(a), len(b))) if a[i] != b[i]), min(len(a), len(b)))
        return (f"main stream differs from the epoch-wise concatenation cut by batch size at event {k}: "
                f"expected {a[k:k + 6]} got {b[k:k + 6]} (expected {len(a)} events, got {len(b)})")
    if obs.get("batches") == "AssertionError":
        return "batch sampler's final assertion fired: stream did not end on a batch boundary"
    ys = [ev for ev in obs["log"] if ev[0] == "Y"]
    if ys and not ys[-1][1]:
        return "stream does not end on a batch boundary"
    if isinstance(obs.get("batches"), list):
        flat = [i for bt in obs["batches"] for i in bt]
        if flat != [ev[2] for ev in ys]:
            return "batch sampler yields other indices than the sampler"
        # cut points = full flags
        cuts = []
        cur = []
        for ev in ys:
            cur.append(ev[2])
            if ev[1]:
                cuts.append(cur)
                cur = []
        if cuts != obs["batches"]:
            return "batch sampler cuts differ from the is_full_batch flags"
    return None


def features(case, obs):
    yield "budget=" + case["budget"][0] + ("0" if case["budget"][1] == 0 else "")
    yield "drop_last=%s" % case["drop_last"]
    yield "D=%s" % (case["D"] is not None)
    yield "configs=%d" % len(case["sides"])
    yield "start=%s" % (case["start"][0] if case["start"] else None)
    yield "result=" + obs.get("result", "harness_exception")
    yield "N%%B=%s" % ("0" if case["N"] % case["B"] == 0 else "!=0")


def nontrivial_key(case, obs):
    n_upd = sum(1 for ev in obs.get("log", []) if ev[0] == "Y" and ev[1] and ev[2] < case["dsN"])
    if n_upd < 2:
        return None
    return (case["N"], case["B"], case["drop_last"], case["D"], tuple(case["budget"]),
            tuple(case["start"] or ()), len(case["sides"]))
