(* Proofs for C12.  Part 1: list lemmas (stride / interleave / wrap_take /
   repeat_interleave); part 2: the samplers. *)
From Coq Require Import ZArith List Bool Arith Lia Permutation.
Import ListNotations.
From KD Require Import C12.Model C12.Spec.

Ltac Zify.zify_post_hook ::= Z.to_euclidean_division_equations.

(* ------------------------------------------------------------------ *)
(* part 1: lists                                                        *)
(* ------------------------------------------------------------------ *)
Section L.
  Context {A : Type}.
  Implicit Types l : list A.

  Lemma nth_error_ext : forall l1 l2, (forall i, nth_error l1 i = nth_error l2 i) -> l1 = l2.
  Proof.
    induction l1 as [|x l1 IH]; intros [|y l2] H; auto.
    - specialize (H 0); discriminate.
    - specialize (H 0); discriminate.
    - pose proof (H 0) as H0. simpl in H0. inversion H0; subst. f_equal.
      apply IH. intro i. apply (H (S i)).
  Qed.

  Lemma length_by_nth_error : forall l L,
      (forall j, j < L -> nth_error l j <> None) -> nth_error l L = None -> length l = L.
  Proof.
    intros l L H1 H2. apply nth_error_None in H2.
    destruct (Nat.eq_dec (length l) L) as [|ne]; auto.
    assert (length l < L) as H by lia. apply H1 in H. apply nth_error_Some in H. lia.
  Qed.

  Lemma nth_error_firstn : forall l T k,
      nth_error (firstn T l) k = if k <? T then nth_error l k else None.
  Proof.
    induction l as [|x l IH]; intros [|T] [|k]; simpl; auto.
    - destruct (S k <? S T); auto.
    - rewrite IH. reflexivity.
  Qed.

  Lemma every_nth_error : forall W, 1 <= W -> forall l c j,
      nth_error (every W c l) j = nth_error l (c + j * W).
  Proof.
    intros W HW. induction l as [|x l IH]; intros c j.
    - simpl. destruct j; destruct (c + _); reflexivity.
    - destruct c as [|c]; simpl.
      + destruct j as [|j]; simpl; auto.
        rewrite IH. replace (W + j * W) with (S (W - 1 + j * W)) by lia. reflexivity.
      + rewrite IH. reflexivity.
  Qed.

  Lemma slice3_nth_error : forall W, 1 <= W -> forall l r stop j,
      nth_error (slice3 r stop W l) j = if r + j * W <? stop then nth_error l (r + j * W) else None.
  Proof.
    intros. unfold slice3, stride. rewrite every_nth_error by auto. apply nth_error_firstn.
  Qed.

  (* flat_map with chunks of constant width *)
  Lemma flat_map_const_width_nth : forall (f : nat -> list A) W L,
      (forall j, j < L -> length (f j) = W) ->
      forall j r, j < L -> r < W ->
      nth_error (flat_map f (seq 0 L)) (j * W + r) = nth_error (f j) r.
  Proof.
    intros f W. induction L as [|L IH]; intros Hw j r Hj Hr; [lia|].
    rewrite seq_S, flat_map_app. simpl. rewrite app_nil_r.
    assert (length (flat_map f (seq 0 L)) = L * W) as Hlen.
    { clear IH Hj. induction L as [|L IHL]; auto.
      rewrite seq_S, flat_map_app, app_length. simpl. rewrite app_nil_r.
      rewrite IHL, Hw by (intros; try apply Hw; lia). lia. }
    destruct (Nat.eq_dec j L) as [->|ne].
    - rewrite nth_error_app2 by lia. f_equal. lia.
    - rewrite nth_error_app1 by nia. apply IH; auto; lia.
  Qed.

  Lemma flat_map_const_width_length : forall (f : nat -> list A) W L,
      (forall j, j < L -> length (f j) = W) -> length (flat_map f (seq 0 L)) = L * W.
  Proof.
    intros f W. induction L as [|L IHL]; intros Hw; auto.
    rewrite seq_S, flat_map_app, app_length. simpl. rewrite app_nil_r.
    rewrite IHL, Hw by (intros; try apply Hw; lia). lia.
  Qed.

  (* column j of equally long streams *)
  Lemma column_spec : forall (streams : list (list A)) L j, j < L ->
      Forall (fun s => length s = L) streams ->
      length (column j streams) = length streams /\
      forall r, nth_error (column j streams) r =
                match nth_error streams r with Some s => nth_error s j | None => None end.
  Proof.
    intros streams L j Hj. induction 1 as [|s streams Hs _ IH]; simpl.
    - split; auto. intros []; reflexivity.
    - destruct IH as [IH1 IH2].
      destruct (nth_error s j) as [x|] eqn:E.
      2:{ apply nth_error_None in E. lia. }
      simpl. split; [lia|]. intros [|r]; simpl; auto.
  Qed.

  Lemma interleave_nth_error : forall (streams : list (list A)) W L,
      length streams = W -> Forall (fun s => length s = L) streams ->
      forall j r, j < L -> r < W ->
      nth_error (interleave streams) (j * W + r) = nth_error (nth r streams []) j.
  Proof.
    intros streams W L HW HL j r Hj Hr. unfold interleave.
    assert (length (hd [] streams) = L) as ->.
    { destruct streams; simpl in *; [lia|]. inversion HL; auto. }
    rewrite flat_map_const_width_nth with (W := W); auto.
    - destruct (column_spec streams L j Hj HL) as [_ H]. rewrite H.
      destruct (nth_error streams r) eqn:E.
      + erewrite nth_error_nth by eauto. reflexivity.
      + apply nth_error_None in E. lia.
    - intros j' Hj'. destruct (column_spec streams L j' Hj' HL) as [H _]. lia.
  Qed.

  Lemma interleave_length : forall (streams : list (list A)) W L,
      length streams = W -> Forall (fun s => length s = L) streams ->
      length (interleave streams) = W * L.
  Proof.
    intros streams W L HW HL. unfold interleave.
    destruct streams as [|s0 streams]; simpl in HW; [subst; reflexivity|].
    assert (length (hd [] (s0 :: streams)) = L) as -> by (inversion HL; auto).
    rewrite flat_map_const_width_length with (W := W); [lia|].
    intros j Hj. destruct (column_spec (s0 :: streams) L j Hj HL) as [H _]. simpl in *. lia.
  Qed.

  (* the key lemma: streams that read a list P of length W*L with stride W
     interleave back into P *)
  Lemma interleave_of_strided : forall (streams : list (list A)) W L P,
      length streams = W -> Forall (fun s => length s = L) streams -> length P = W * L ->
      (forall r j, r < W -> j < L -> nth_error (nth r streams []) j = nth_error P (r + j * W)) ->
      interleave streams = P.
  Proof.
    intros streams W L P HW HL HP H. apply nth_error_ext. intro i.
    destruct (Nat.ltb_spec i (W * L)) as [lt|ge].
    - assert (0 < W) by nia.
      assert (i = (i / W) * W + i mod W) as Hi by (pose proof (Nat.div_mod i W); lia).
      assert (i mod W < W) by (apply Nat.mod_upper_bound; lia).
      assert (i / W < L) by (apply Nat.div_lt_upper_bound; lia).
      rewrite Hi at 1. rewrite interleave_nth_error with (L := L) by auto.
      rewrite H by auto. f_equal. lia.
    - transitivity (@None A).
      + apply nth_error_None. rewrite interleave_length with (W := W) (L := L); auto.
      + symmetry. apply nth_error_None. lia.
  Qed.

  Lemma wrap_take_length : forall T (G : list A), G <> [] -> length (wrap_take T G) = T.
  Proof. intros T [|d G] H; [congruence|]. unfold wrap_take. rewrite map_length, seq_length. reflexivity. Qed.

  Lemma wrap_take_nth_error : forall T (G : list A) k, k < T -> G <> [] ->
      nth_error (wrap_take T G) k = nth_error G (k mod length G).
  Proof.
    intros T [|d G] k Hk H; [congruence|]. unfold wrap_take.
    rewrite nth_error_map.
    rewrite (nth_error_nth' _ 0) by (rewrite seq_length; auto).
    rewrite seq_nth by auto. unfold option_map. rewrite Nat.add_0_l.
    symmetry. apply nth_error_nth'. apply Nat.mod_upper_bound. simpl. lia.
  Qed.

  (* readable special cases of wrap_take: a prefix, or G followed by a wrapped prefix *)
  Lemma wrap_take_prefix : forall T (G : list A), T <= length G -> wrap_take T G = firstn T G.
  Proof.
    intros T G HT. destruct G as [|d G'] eqn:EG; [destruct T; reflexivity|]. rewrite <- EG in *.
    assert (G <> []) by (subst; discriminate).
    apply nth_error_ext. intro k. rewrite nth_error_firstn.
    destruct (Nat.ltb_spec k T).
    - rewrite wrap_take_nth_error by auto. rewrite Nat.mod_small by lia. reflexivity.
    - apply nth_error_None. rewrite wrap_take_length; auto.
  Qed.

  Lemma wrap_take_wrap : forall T (G : list A), length G <= T ->
      wrap_take T G = G ++ wrap_take (T - length G) G.
  Proof.
    intros T G HT. destruct G as [|d G'] eqn:EG; [reflexivity|]. rewrite <- EG in *.
    assert (G <> []) as Hne by (subst; discriminate).
    assert (0 < length G) by (subst; simpl; lia).
    apply nth_error_ext. intro k.
    destruct (Nat.ltb_spec k T).
    - rewrite wrap_take_nth_error by auto.
      destruct (Nat.ltb_spec k (length G)).
      + rewrite nth_error_app1 by auto. rewrite Nat.mod_small by lia. reflexivity.
      + rewrite nth_error_app2 by auto. rewrite wrap_take_nth_error by (auto; lia).
        f_equal. replace k with ((k - length G) + 1 * length G) at 1 by lia.
        apply Nat.mod_add. lia.
    - transitivity (@None A).
      + apply nth_error_None. rewrite wrap_take_length; auto.
      + symmetry. apply nth_error_None. rewrite app_length, wrap_take_length; auto. lia.
  Qed.

  Lemma list_mul_nth_error : forall (G : list A) m k, k < m * length G ->
      nth_error (list_mul G m) k = nth_error G (k mod length G).
  Proof.
    intros G. unfold list_mul. induction m as [|m IH]; intros k Hk; [lia|].
    simpl. assert (0 < length G) by nia.
    destruct (Nat.ltb_spec k (length G)).
    - rewrite nth_error_app1 by auto. rewrite Nat.mod_small by lia. reflexivity.
    - rewrite nth_error_app2 by auto. rewrite IH by nia.
      f_equal. replace k with ((k - length G) + 1 * length G) at 2 by lia.
      symmetry. apply Nat.mod_add. lia.
  Qed.

  Lemma list_mul_length : forall (G : list A) m, length (list_mul G m) = m * length G.
  Proof. intros G. unfold list_mul. induction m; simpl; auto. rewrite app_length. lia. Qed.

  Lemma repeat_interleave_nth_error : forall r, 1 <= r -> forall (l : list A) k,
      nth_error (repeat_interleave r l) k = nth_error l (k / r).
  Proof.
    intros r Hr. unfold repeat_interleave. induction l as [|x l IH]; intro k; simpl.
    - destruct k; destruct (_ / r); reflexivity.
    - destruct (Nat.ltb_spec k r).
      + rewrite nth_error_app1 by (rewrite repeat_length; auto).
        rewrite nth_error_repeat by auto. rewrite Nat.div_small by auto. reflexivity.
      + rewrite nth_error_app2 by (rewrite repeat_length; auto). rewrite repeat_length.
        rewrite IH. replace (k / r) with (S ((k - r) / r)); [reflexivity|].
        replace k with ((k - r) + 1 * r) at 2 by lia. rewrite Nat.div_add by lia. lia.
  Qed.

  Lemma repeat_interleave_length : forall r (l : list A), length (repeat_interleave r l) = length l * r.
  Proof.
    intros r. unfold repeat_interleave. induction l; simpl; auto.
    rewrite app_length, repeat_length. lia.
  Qed.
End L.

(* ------------------------------------------------------------------ *)
(* part 2: from "stream r reads G cyclically with stride W" to the spec  *)
(* ------------------------------------------------------------------ *)
Lemma nth_map_seq : forall {B} (f : nat -> B) W r d, r < W -> nth r (map f (seq 0 W)) d = f r.
Proof.
  intros B f W r d Hr. rewrite nth_indep with (d' := f 0) by (rewrite map_length, seq_length; auto).
  rewrite map_nth. rewrite seq_nth by auto. reflexivity.
Qed.

Lemma split_of_strided : forall {A} (drop : bool) W L (G : list A) (f : nat -> list A),
    1 <= W ->
    (forall r, r < W -> length (f r) = L) ->
    (if drop then W * L <= length G /\ length G - W * L < W
     else length G <= W * L /\ W * L - length G < W) ->
    (forall r j, r < W -> j < L -> nth_error (f r) j = nth_error G ((r + j * W) mod length G)) ->
    split_of drop W L G (map f (seq 0 W)).
Proof.
  intros A drop W L G f HW Hlen Hb Hnth.
  assert (Forall (fun s => length s = L) (map f (seq 0 W))) as HF.
  { apply Forall_forall. intros s Hs. apply in_map_iff in Hs. destruct Hs as [r [<- Hr]].
    apply in_seq in Hr. apply Hlen. lia. }
  unfold split_of, lengths_equal. rewrite map_length, seq_length.
  repeat split; auto.
  apply interleave_of_strided with (W := W) (L := L); auto.
  - rewrite map_length, seq_length. reflexivity.
  - destruct G as [|d G'] eqn:EG.
    + assert (L = 0) as -> by (simpl in Hb; destruct drop; destruct L; nia). simpl. lia.
    + rewrite <- EG. apply wrap_take_length. subst; discriminate.
  - intros r j Hr Hj. rewrite nth_map_seq by auto. rewrite Hnth by auto.
    destruct G as [|d G'] eqn:EG.
    + assert (L = 0) by (simpl in Hb; destruct drop; destruct L; nia). lia.
    + rewrite <- EG in *. symmetry. apply wrap_take_nth_error; [nia | subst; discriminate].
Qed.

(* ------------------------------------------------------------------ *)
(* part 3: DistributedSampler                                           *)
(* ------------------------------------------------------------------ *)
(* contract of torch.randperm / randint(size=n) used by C12: n entries *)
Definition len_oracle (draw : oracle) : Prop := forall s h n, length (draw s h n) = n.

(* domain of the property *)
Definition dcfg_ok (c : dcfg) : Prop :=
  1 <= d_W c /\ 1 <= d_rep c /\ (d_shuffle c = true \/ d_rep c = 1).

Lemma ceil_div_bounds : forall a b, 1 <= b -> a <= ceil_div a b * b /\ ceil_div a b * b < a + b.
Proof.
  intros a b Hb. unfold ceil_div.
  pose proof (Nat.div_mod (a + b - 1) b). pose proof (Nat.mod_upper_bound (a + b - 1) b). split; nia.
Qed.

Lemma floor_div_bounds : forall a b, 1 <= b -> (a / b) * b <= a /\ a - (a / b) * b < b.
Proof.
  intros a b Hb. pose proof (Nat.div_mod a b). pose proof (Nat.mod_upper_bound a b). split; nia.
Qed.

(* for n mod W <> 0 the "ceil((n - W) / W)" of torch is floor(n / W) *)
Lemma ceil_div_sub : forall n W, 1 <= W -> n mod W <> 0 -> ceil_div (n - W) W = n / W.
Proof.
  intros n W HW Hm. unfold ceil_div.
  destruct (Nat.ltb_spec n W).
  - replace (n - W + W - 1) with (W - 1) by lia. rewrite !Nat.div_small by lia. reflexivity.
  - replace (n - W + W - 1) with (n - 1) by lia.
    pose proof (Nat.div_mod n W). pose proof (Nat.mod_upper_bound n W).
    symmetry. apply Nat.div_unique with (r := n mod W - 1); nia.
Qed.

Lemma total_size_bounds : forall c, 1 <= d_W c ->
    if d_drop c then total_size c <= d_n c /\ d_n c - total_size c < d_W c
    else d_n c <= total_size c /\ total_size c - d_n c < d_W c.
Proof.
  intros c HW. unfold total_size, num_samples.
  pose proof (ceil_div_bounds (d_n c) (d_W c) HW).
  pose proof (floor_div_bounds (d_n c) (d_W c) HW).
  destruct (d_drop c); simpl.
  - destruct (d_n c mod d_W c =? 0) eqn:E; simpl.
    + apply Nat.eqb_eq in E.
      assert (ceil_div (d_n c) (d_W c) * d_W c = d_n c); [|lia].
      pose proof (Nat.div_mod (d_n c) (d_W c)).
      assert (ceil_div (d_n c) (d_W c) = d_n c / d_W c); [|nia].
      unfold ceil_div. symmetry. apply Nat.div_unique with (r := d_W c - 1); nia.
    + apply Nat.eqb_neq in E. rewrite ceil_div_sub by auto. lia.
  - lia.
Qed.

Lemma dist_global_length : forall c draw G, len_oracle draw -> 1 <= d_rep c ->
    dist_global c draw = Ok G -> length G = d_n c.
Proof.
  intros c draw G Hd Hr. unfold dist_global.
  destruct (d_rep c =? 1) eqn:E1.
  - destruct (d_shuffle c); intro H; inversion H; subst; [apply Hd | apply seq_length].
  - destruct (d_shuffle c); simpl; intro H; inversion H; subst.
    rewrite firstn_length, repeat_interleave_length, Hd. nia.
Qed.

Lemma dist_global_ok : forall c draw, dcfg_ok c -> exists G, dist_global c draw = Ok G.
Proof.
  intros c draw (HW & Hr & Hs). unfold dist_global.
  destruct (d_rep c =? 1) eqn:E1.
  - destruct (d_shuffle c); eauto.
  - apply Nat.eqb_neq in E1. destruct Hs as [-> | ?]; [simpl; eauto | lia].
Qed.

Lemma pad_or_cut_spec : forall c G, 1 <= d_W c -> length G = d_n c ->
    length (pad_or_cut c G) = total_size c /\
    forall k, k < total_size c -> nth_error (pad_or_cut c G) k = nth_error G (k mod d_n c).
Proof.
  intros c G HW HG. pose proof (total_size_bounds c HW) as HT.
  unfold pad_or_cut. destruct (d_drop c); simpl.
  - rewrite firstn_length. split; [lia|]. intros k Hk.
    rewrite nth_error_firstn. destruct (Nat.ltb_spec k (total_size c)); [|lia].
    rewrite Nat.mod_small by lia. reflexivity.
  - set (p := total_size c - length G).
    destruct (Nat.leb_spec p (length G)).
    + rewrite app_length, firstn_length. split; [lia|]. intros k Hk.
      destruct (Nat.ltb_spec k (length G)).
      * rewrite nth_error_app1 by auto. rewrite Nat.mod_small by lia. reflexivity.
      * rewrite nth_error_app2 by auto. rewrite nth_error_firstn.
        destruct (Nat.ltb_spec (k - length G) p); [|lia].
        f_equal. rewrite <- HG. replace k with ((k - length G) + 1 * length G) at 2 by lia.
        rewrite Nat.mod_add by lia. rewrite Nat.mod_small by lia. reflexivity.
    + assert (0 < length G).
      { destruct (length G) eqn:E; [|lia]. exfalso.
        assert (total_size c = 0); [|lia].
        unfold total_size in *. destruct (num_samples c); [reflexivity | nia]. }
      assert (p <= ceil_div p (length G) * length G) by (apply ceil_div_bounds; lia).
      rewrite app_length, firstn_length, list_mul_length. split; [lia|]. intros k Hk.
      destruct (Nat.ltb_spec k (length G)).
      * rewrite nth_error_app1 by auto. rewrite Nat.mod_small by lia. reflexivity.
      * rewrite nth_error_app2 by auto. rewrite nth_error_firstn.
        destruct (Nat.ltb_spec (k - length G) p); [|lia].
        rewrite list_mul_nth_error by lia.
        f_equal. rewrite <- HG. replace k with ((k - length G) + 1 * length G) at 2 by lia.
        rewrite Nat.mod_add by lia. reflexivity.
Qed.

Lemma dist_iter_spec : forall c draw rank G, len_oracle draw -> dcfg_ok c -> rank < d_W c ->
    dist_global c draw = Ok G ->
    exists s, dist_iter c draw rank = Ok s /\ length s = num_samples c /\
              forall j, j < num_samples c -> nth_error s j = nth_error G ((rank + j * d_W c) mod d_n c).
Proof.
  intros c draw rank G Hd (HW & Hr & Hs) Hrank HG.
  pose proof (dist_global_length c draw G Hd Hr HG) as HlenG.
  destruct (pad_or_cut_spec c G HW HlenG) as [Hlen Hnth].
  unfold dist_iter. rewrite HG. rewrite Hlen, Nat.eqb_refl. simpl.
  assert (forall j, nth_error (slice3 rank (total_size c) (d_W c) (pad_or_cut c G)) j =
                    if j <? num_samples c then nth_error G ((rank + j * d_W c) mod d_n c) else None) as Hs3.
  { intro j. rewrite slice3_nth_error by auto. unfold total_size in *.
    destruct (Nat.ltb_spec j (num_samples c)).
    - destruct (Nat.ltb_spec (rank + j * d_W c) (num_samples c * d_W c)); [|nia].
      apply Hnth. auto.
    - destruct (Nat.ltb_spec (rank + j * d_W c) (num_samples c * d_W c)); [nia|]. reflexivity. }
  assert (length (slice3 rank (total_size c) (d_W c) (pad_or_cut c G)) = num_samples c) as HL.
  { apply length_by_nth_error.
    - intros j Hj. rewrite Hs3. destruct (Nat.ltb_spec j (num_samples c)); [|lia].
      apply nth_error_Some. rewrite HlenG.
      assert (0 < d_n c).
      { destruct (d_n c) eqn:E; [|lia]. exfalso.
        unfold num_samples, ceil_div in Hj. rewrite E in Hj. simpl in Hj.
        rewrite Nat.mod_0_l in Hj by lia. rewrite andb_false_r in Hj.
        rewrite Nat.div_small in Hj by lia. lia. }
      apply Nat.mod_upper_bound. lia.
    - rewrite Hs3. rewrite Nat.ltb_irrefl. reflexivity. }
  rewrite HL, Nat.eqb_refl. simpl. eexists. split; [reflexivity|]. split; auto.
  intros j Hj. rewrite Hs3. destruct (Nat.ltb_spec j (num_samples c)); [reflexivity|lia].
Qed.

Lemma dist_rank_lengths_equal : forall c draw, len_oracle draw -> dcfg_ok c ->
    forall rank, rank < d_W c ->
    exists s, r_out (dist_run c draw rank) = Ok s /\ length s = r_len (dist_run c draw rank)
              /\ r_len (dist_run c draw rank) = num_samples c.
Proof.
  intros c draw Hd Hc rank Hr. destruct (dist_global_ok c draw Hc) as [G HG].
  destruct (dist_iter_spec c draw rank G Hd Hc Hr HG) as [s [H1 [H2 _]]].
  exists s. simpl. auto.
Qed.

Lemma dist_interleave : forall c draw, len_oracle draw -> dcfg_ok c ->
    exists G, dist_global c draw = Ok G /\ length G = d_n c /\
      split_of (d_drop c) (d_W c) (num_samples c) G
               (map (fun rank => stream_of (r_out (dist_run c draw rank))) (seq 0 (d_W c))).
Proof.
  intros c draw Hd Hc. destruct (dist_global_ok c draw Hc) as [G HG]. exists G.
  pose proof Hc as (HW & Hr & Hs).
  pose proof (dist_global_length c draw G Hd Hr HG) as HlenG.
  split; auto. split; auto.
  apply split_of_strided; auto.
  - intros r Hrk. destruct (dist_iter_spec c draw r G Hd Hc Hrk HG) as [s [H1 [H2 _]]].
    simpl. rewrite H1. auto.
  - pose proof (total_size_bounds c HW) as HT. unfold total_size in HT. rewrite HlenG.
    destruct (d_drop c); lia.
  - intros r j Hrk Hj. destruct (dist_iter_spec c draw r G Hd Hc Hrk HG) as [s [H1 [H2 H3]]].
    simpl. rewrite H1. simpl. rewrite HlenG. auto.
Qed.

(* the global draw does not depend on the rank, and the only seed ever given
   to the generator is seed + epoch *)
Lemma dist_same_global : forall c draw rank,
    r_out (dist_run c draw rank) =
    match dist_global c draw with
    | Ok G => let P := pad_or_cut c G in
              if negb (length P =? total_size c) then AssertFail
              else let s := slice3 rank (total_size c) (d_W c) P in
                   if negb (length s =? num_samples c) then AssertFail else Ok s
    | AssertFail => AssertFail
    | Runaway => Runaway
    end.
Proof. intros. reflexivity. Qed.

Lemma dist_seed_plus_epoch : forall c draw rank,
    Forall (fun s => s = (d_seed c + d_epoch c)%Z) (r_seeds (dist_run c draw rank)).
Proof. intros. simpl. destruct (d_shuffle c); auto. Qed.

(* equal seed + epoch (all else equal) gives the same streams *)
Lemma dist_reproducible : forall c1 c2 draw rank,
    d_n c1 = d_n c2 -> d_W c1 = d_W c2 -> d_shuffle c1 = d_shuffle c2 -> d_drop c1 = d_drop c2 ->
    d_rep c1 = d_rep c2 -> (d_seed c1 + d_epoch c1 = d_seed c2 + d_epoch c2)%Z ->
    dist_run c1 draw rank = dist_run c2 draw rank.
Proof.
  intros [n1 W1 s1 sd1 dr1 r1 e1] [n2 W2 s2 sd2 dr2 r2 e2] draw rank; simpl.
  intros -> -> -> -> -> H.
  unfold dist_run, dist_iter, dist_global, pad_or_cut, total_size, num_samples; simpl. rewrite H. reflexivity.
Qed.

Lemma dist_repeats_consecutive : forall c draw G, len_oracle draw -> 1 <= d_rep c -> d_shuffle c = true ->
    dist_global c draw = Ok G ->
    repeats_consecutive_spec (d_rep c) (draw (d_seed c + d_epoch c)%Z [] (d_n c)) G.
Proof.
  intros c draw G Hd Hr Hs. unfold dist_global, repeats_consecutive_spec. rewrite Hs. simpl.
  destruct (d_rep c =? 1) eqn:E1; intro H; inversion H; subst; clear H; intros k Hk.
  - apply Nat.eqb_eq in E1. rewrite E1, Nat.div_1_r. reflexivity.
  - rewrite firstn_length in Hk. rewrite nth_error_firstn.
    destruct (Nat.ltb_spec k (d_n c)); [|lia]. apply repeat_interleave_nth_error. auto.
Qed.

(* ------------------------------------------------------------------ *)
(* part 4: the rank split of ClassBalancedSampler / WeightedSampler      *)
(* ------------------------------------------------------------------ *)
Lemma rank_split_spec : forall E W rank G, 1 <= W -> rank < W -> length G = E ->
    length (rank_split E W rank G) = E / W /\
    forall j, j < E / W -> nth_error (rank_split E W rank G) j = nth_error G (rank + j * W).
Proof.
  intros E W rank G HW Hr HG. pose proof (floor_div_bounds E W HW) as [Hb1 Hb2].
  assert (forall j, nth_error (rank_split E W rank G) j =
                    if j <? E / W then nth_error G (rank + j * W) else None) as H.
  { intro j. unfold rank_split. rewrite nth_error_firstn.
    destruct (Nat.ltb_spec j (E / W)); auto.
    rewrite slice3_nth_error by auto.
    destruct (Nat.ltb_spec (rank + j * W) E); auto. nia. }
  split.
  - apply length_by_nth_error.
    + intros j Hj. rewrite H. destruct (Nat.ltb_spec j (E / W)); [|lia].
      apply nth_error_Some. nia.
    + rewrite H, Nat.ltb_irrefl. reflexivity.
  - intros j Hj. rewrite H. destruct (Nat.ltb_spec j (E / W)); [reflexivity|lia].
Qed.

Lemma rank_split_split_of : forall E W G, 1 <= W -> length G = E ->
    split_of true W (E / W) G (map (fun rank => rank_split E W rank G) (seq 0 W)).
Proof.
  intros E W G HW HG. pose proof (floor_div_bounds E W HW) as [Hb1 Hb2].
  apply split_of_strided; auto.
  - intros r Hr. apply rank_split_spec; auto.
  - rewrite HG. lia.
  - intros r j Hr Hj. destruct (rank_split_spec E W r G HW Hr HG) as [_ H].
    rewrite H by auto. rewrite Nat.mod_small by nia. reflexivity.
Qed.

(* ------------------------------------------------------------------ *)
(* part 5: RandomSampler — repeated augmentation                         *)
(* ------------------------------------------------------------------ *)
Lemma rand_repeats_consecutive : forall c draw, len_oracle draw -> 1 <= rs_n c -> 1 <= rs_rep c ->
    (rs_rep c <> 1 \/ rs_replacement c = false) ->
    length (rand_iter c draw) = rs_n c /\
    repeats_consecutive_spec (rs_rep c) (draw (rs_seed c) [] (rs_n c)) (rand_iter c draw).
Proof.
  intros c draw Hd Hn Hr Hc. unfold rand_iter, repeats_consecutive_spec.
  destruct (rs_rep c =? 1) eqn:E1.
  - apply Nat.eqb_eq in E1. destruct Hc as [?|Hc]; [lia|]. rewrite Hc.
    unfold rand_torch_reqs. rewrite Hc, Nat.div_same, Nat.mod_same by lia. simpl.
    rewrite !app_nil_r. split; [apply Hd|]. intros k Hk. rewrite E1, Nat.div_1_r. reflexivity.
  - rewrite firstn_length, repeat_interleave_length, Hd. split; [nia|]. intros k Hk.
    rewrite nth_error_firstn. destruct (Nat.ltb_spec k (rs_n c)); [|lia].
    apply repeat_interleave_nth_error. auto.
Qed.

(* ------------------------------------------------------------------ *)
(* part 6: WeightedSampler — rank split of the multinomial draw          *)
(* ------------------------------------------------------------------ *)
Lemma w_split : forall c draw E, len_oracle draw -> 1 <= w_W c -> w_E c = Ok E ->
    w_global c draw = Ok (draw (w_seed c + w_epoch c)%Z [] E) /\
    (forall rank, rank < w_W c ->
       exists s, r_out (w_run c draw rank) = Ok s /\ length s = r_len (w_run c draw rank)
                 /\ r_len (w_run c draw rank) = E / w_W c
                 /\ r_seeds (w_run c draw rank) = [(w_seed c + w_epoch c)%Z]) /\
    split_of true (w_W c) (E / w_W c) (draw (w_seed c + w_epoch c)%Z [] E)
             (map (fun rank => stream_of (r_out (w_run c draw rank))) (seq 0 (w_W c))).
Proof.
  intros c draw E Hd HW HE. unfold w_global, w_run. rewrite HE. split; auto. split.
  - intros rank Hr. simpl. eexists. split; [reflexivity|]. split; auto.
    apply rank_split_spec; auto.
  - simpl. apply rank_split_split_of; auto.
Qed.

(* ------------------------------------------------------------------ *)
(* part 7: ClassBalancedSampler — the draw loops end and give C*spc      *)
(* indices, then the rank split                                          *)
(* ------------------------------------------------------------------ *)
(* contract of torch.randperm *)
Definition perm_oracle (draw : oracle) : Prop := forall s h n, Permutation (draw s h n) (seq 0 n).

Lemma perm_oracle_len : forall draw, perm_oracle draw -> len_oracle draw.
Proof. intros draw H s h n. rewrite (Permutation_length (H s h n)). apply seq_length. Qed.

Lemma gather_length : forall pool perm, length (gather pool perm) = length perm.
Proof. intros. apply map_length. Qed.

Lemma gather_in : forall pool perm, Forall (fun p => p < length pool) perm ->
    Forall (fun x => In x pool) (gather pool perm).
Proof.
  intros pool perm H. unfold gather. apply Forall_forall. intros x Hx.
  apply in_map_iff in Hx. destruct Hx as [p [<- Hp]]. apply nth_In.
  rewrite Forall_forall in H. auto.
Qed.

Lemma perm_entries_lt : forall k perm, Permutation perm (seq 0 k) -> Forall (fun p => p < k) perm.
Proof.
  intros k perm H. apply Forall_forall. intros p Hp.
  apply (Permutation_in _ H) in Hp. apply in_seq in Hp. lia.
Qed.

Lemma Forall_firstn : forall {A} (P : A -> Prop) n l, Forall P l -> Forall P (firstn n l).
Proof.
  intros A P n l H. apply Forall_forall. intros x Hx. rewrite Forall_forall in H.
  apply H. rewrite <- (firstn_skipn n l). apply in_or_app. auto.
Qed.

Lemma pool_loop_ok : forall g shuffle pool, pool <> [] ->
    (forall h k, Permutation (g h k) (seq 0 k)) ->
    forall fuel remaining h, remaining < fuel ->
    exists chunk h', pool_loop fuel g shuffle pool remaining h = Ok (chunk, h') /\
                     length chunk = remaining /\ Forall (fun x => In x pool) chunk.
Proof.
  intros g shuffle pool Hne Hg. induction fuel as [|fuel IH]; intros remaining h Hf; [lia|].
  simpl. destruct (Nat.eqb_spec remaining 0) as [->|Hr].
  - exists [], h. auto.
  - set (perm := if shuffle then g h (length pool) else seq 0 (length pool)).
    assert (Permutation perm (seq 0 (length pool))) as Hp by (unfold perm; destruct shuffle; auto).
    assert (length perm = length pool) as Hlp by (rewrite (Permutation_length Hp); apply seq_length).
    assert (0 < length pool) by (destruct pool; simpl; [congruence|lia]).
    assert (length (firstn remaining perm) = Nat.min remaining (length pool)) as Hlf
        by (rewrite firstn_length; lia).
    destruct (IH (remaining - length (firstn remaining perm))
                 (if shuffle then h ++ [length pool] else h)) as (rest & h' & H1 & H2 & H3); [lia|].
    rewrite H1. exists (gather pool (firstn remaining perm) ++ rest), h'. split; auto. split.
    + rewrite app_length, gather_length, H2. lia.
    + apply Forall_app. split; auto. apply gather_in. apply Forall_firstn. apply perm_entries_lt; auto.
Qed.

(* before the repair: an empty pool never lets the loop end (the hang on
   labels [-1,0,0,2] with 3 classes) *)
Lemma pool_loop_empty_pool_runs_away : forall g fuel remaining h, remaining <> 0 ->
    (forall h k, Permutation (g h k) (seq 0 k)) ->
    pool_loop fuel g true [] remaining h = Runaway.
Proof.
  intros g. induction fuel as [|fuel IH]; intros remaining h Hr Hg; auto.
  simpl. destruct (Nat.eqb_spec remaining 0); [lia|].
  assert (g h 0 = []) as -> by (apply Permutation_nil; apply Permutation_sym; apply (Hg h 0)).
  rewrite firstn_nil. simpl. rewrite Nat.sub_0_r. rewrite IH; auto.
Qed.

Lemma classes_loop_ok : forall g shuffle spc, (forall h k, Permutation (g h k) (seq 0 k)) ->
    forall pools h, Forall (fun p => p <> []) pools ->
    exists idx h', classes_loop g shuffle spc pools h = Ok (idx, h') /\ length idx = length pools * spc.
Proof.
  intros g shuffle spc Hg. induction pools as [|pool pools IH]; intros h Hp.
  - exists [], h. auto.
  - inversion Hp; subst. cbn [classes_loop].
    destruct (pool_loop_ok g shuffle pool H1 Hg (S spc) spc h) as (chunk & h' & E1 & E2 & _); [lia|].
    rewrite E1. destruct (IH h' H2) as (rest & h'' & E3 & E4). rewrite E3.
    exists (chunk ++ rest), h''. split; auto. rewrite app_length. simpl. lia.
Qed.

Lemma cb_ctor_pools : forall c, cb_ctor_ok c = true -> Forall (fun p => p <> []) (cb_pools c).
Proof.
  intros c H. unfold cb_ctor_ok in H. apply andb_prop in H. destruct H as [_ H].
  rewrite forallb_forall in H. apply Forall_forall. intros p Hp Hnil. subst.
  apply H in Hp. discriminate.
Qed.

Lemma cb_global_ok : forall c draw, perm_oracle draw -> cb_ctor_ok c = true ->
    exists G h, cb_global c draw = Ok (G, h) /\ length G = cb_E c.
Proof.
  intros c draw Hd Hc. unfold cb_global.
  destruct (classes_loop_ok (draw (cb_seed c + cb_epoch c)%Z) (cb_shuffle c) (cb_spc c)
              (Hd _) (cb_pools c) [] (cb_ctor_pools c Hc)) as (idx & h & E1 & E2).
  rewrite E1. unfold cb_pools in E2. rewrite map_length, seq_length in E2.
  destruct (cb_shuffle c); eexists; eexists; split; try reflexivity; auto.
  rewrite gather_length. rewrite (Permutation_length (Hd _ _ _)), seq_length. auto.
Qed.

Lemma cb_split : forall c draw, perm_oracle draw -> cb_ctor_ok c = true -> 1 <= cb_W c ->
    exists G h, cb_global c draw = Ok (G, h) /\ length G = cb_E c /\
    (forall rank, rank < cb_W c ->
       exists s, r_out (cb_run c draw rank) = Ok s /\ length s = r_len (cb_run c draw rank)
                 /\ r_len (cb_run c draw rank) = cb_E c / cb_W c
                 /\ r_seeds (cb_run c draw rank) = [(cb_seed c + cb_epoch c)%Z]) /\
    split_of true (cb_W c) (cb_E c / cb_W c) G
             (map (fun rank => stream_of (r_out (cb_run c draw rank))) (seq 0 (cb_W c))).
Proof.
  intros c draw Hd Hc HW. destruct (cb_global_ok c draw Hd Hc) as (G & h & E1 & E2).
  exists G, h. split; auto. split; auto. unfold cb_run. rewrite Hc, E1. simpl. split.
  - intros rank Hr. eexists. split; [reflexivity|]. split; auto. apply rank_split_spec; auto.
  - apply rank_split_split_of; auto.
Qed.

(* ------------------------------------------------------------------ *)
(* part 8: one sampler object over a sequence of set_epoch / list calls  *)
(* ------------------------------------------------------------------ *)
Section ObjectProofs.
  Context {cfg : Type}.
  Variable set_ep : cfg -> Z -> cfg.
  Variable iter : cfg -> run.
  Variable get_ep : cfg -> Z.
  Hypothesis set_set : forall c e e', set_ep (set_ep c e) e' = set_ep c e'.
  Hypothesis set_get : forall c, set_ep c (get_ep c) = c.
  Hypothesis get_set : forall c e, get_ep (set_ep c e) = e.

  (* the k-th list(sampler) of any call sequence shows what a sampler shows whose epoch is the argument of the last
     set_epoch before it (the initial epoch if there was none): nothing else is carried from call to call *)
  Lemma run_ops_spec : forall ops c,
      run_ops set_ep iter c ops = map (fun e => iter (set_ep c e)) (iter_epochs (get_ep c) ops).
  Proof.
    induction ops as [|[e|] ops IH]; intro c; simpl; auto.
    - rewrite IH, get_set. apply map_ext. intro e'. rewrite set_set. reflexivity.
    - rewrite set_get, IH. reflexivity.
  Qed.
End ObjectProofs.

Lemma dist_object_spec : forall c draw rank ops,
    dist_object c draw rank ops = map (fun e => dist_run (d_set_epoch c e) draw rank) (iter_epochs (d_epoch c) ops).
Proof.
  intros. unfold dist_object.
  apply (run_ops_spec d_set_epoch (fun c' => dist_run c' draw rank) d_epoch); auto. intros []; reflexivity.
Qed.

Lemma w_object_spec : forall c draw rank ops,
    w_object c draw rank ops = map (fun e => w_run (w_set_epoch c e) draw rank) (iter_epochs (w_epoch c) ops).
Proof.
  intros. unfold w_object.
  apply (run_ops_spec w_set_epoch (fun c' => w_run c' draw rank) w_epoch); auto. intros []; reflexivity.
Qed.

Lemma cb_object_spec : forall c draw rank ops,
    cb_object c draw rank ops = map (fun e => cb_run (cb_set_epoch c e) draw rank) (iter_epochs (cb_epoch c) ops).
Proof.
  intros. unfold cb_object.
  apply (run_ops_spec cb_set_epoch (fun c' => cb_run c' draw rank) cb_epoch); auto. intros []; reflexivity.
Qed.

(* two list(sampler) calls under the same epoch show the same *)
Lemma same_epoch_same_run : forall (f : Z -> run) es i j e,
    nth_error es i = Some e -> nth_error es j = Some e -> nth_error (map f es) i = nth_error (map f es) j.
Proof. intros f es i j e Hi Hj. rewrite !nth_error_map, Hi, Hj. reflexivity. Qed.

(* ------------------------------------------------------------------ *)
(* part 9: shuffle=False                                                 *)
(* ------------------------------------------------------------------ *)
Lemma dist_repeats_need_shuffle : forall c draw rank, d_rep c <> 1 -> d_shuffle c = false ->
    r_out (dist_run c draw rank) = AssertFail.
Proof.
  intros c draw rank Hr Hs. simpl. unfold dist_iter, dist_global.
  apply Nat.eqb_neq in Hr. rewrite Hr, Hs. reflexivity.
Qed.

Lemma dist_no_shuffle : forall c draw, d_rep c = 1 -> d_shuffle c = false ->
    dist_global c draw = Ok (seq 0 (d_n c)) /\ forall rank, r_seeds (dist_run c draw rank) = [] /\ r_reqs (dist_run c draw rank) = [].
Proof.
  intros c draw Hr Hs. unfold dist_global. rewrite Hr, Hs. simpl. split; auto.
  intro rank. rewrite Hs. split; reflexivity.
Qed.

(* ------------------------------------------------------------------ *)
(* the default rank / world size                                        *)
(* ------------------------------------------------------------------ *)
Definition not_query (ev : pg_event) : bool := negb (is_query ev).

Lemma pg_after_app : forall evs1 evs2 g, pg_after g (evs1 ++ evs2) = pg_after (pg_after g evs1) evs2.
Proof. intros. unfold pg_after. apply fold_left_app. Qed.

Lemma pg_after_queries : forall qs g, forallb is_query qs = true -> pg_after g qs = g.
Proof.
  induction qs as [|q qs IH]; intros g H; simpl in *; auto.
  apply andb_true_iff in H as [Hq Hqs]. destruct q; try discriminate. simpl. apply IH; auto.
Qed.

Lemma pg_after_without_queries : forall evs g, pg_after g evs = pg_after g (filter not_query evs).
Proof.
  induction evs as [|ev evs IH]; intros g; simpl; auto.
  destruct ev; simpl; apply IH.
Qed.

Lemma resolve_independent_of_history : forall g evs rank world,
    resolve_rank_world rank world (pg_after g evs) = resolve_rank_world rank world (pg_after g (filter not_query evs)).
Proof. intros. rewrite <- pg_after_without_queries. reflexivity. Qed.

Lemma resolve_torch_independent_of_history : forall g evs rank world,
    resolve_torch rank world (pg_after g evs) = resolve_torch rank world (pg_after g (filter not_query evs)).
Proof. intros. rewrite <- pg_after_without_queries. reflexivity. Qed.

(* the process joined a group as (r, W), after whatever happened before, and only queried since *)
Definition joined_as (r W : nat) (evs : list pg_event) : Prop :=
  exists pre qs, evs = pre ++ EvInit r W :: qs /\ forallb is_query qs = true /\
                 pg_available (pg_after pg_fresh pre) = true.

Lemma joined_state : forall r W evs, joined_as r W evs ->
    pg_after pg_fresh evs = {| pg_available := true; pg_joined := Some (r, W) |}.
Proof.
  intros r W evs (pre & qs & -> & Hq & Ha).
  rewrite pg_after_app. simpl. change (fold_left pg_step qs ?g) with (pg_after g qs).
  rewrite pg_after_queries by auto. simpl. rewrite Ha. reflexivity.
Qed.

Lemma resolve_after_init : forall r W evs, joined_as r W evs ->
    resolve_rank_world None None (pg_after pg_fresh evs) = (r, W).
Proof. intros. rewrite (joined_state r W) by auto. reflexivity. Qed.

Lemma resolve_torch_after_init : forall r W evs, joined_as r W evs -> r < W ->
    resolve_torch None None (pg_after pg_fresh evs) = Some (r, W).
Proof.
  intros. rewrite (joined_state r W) by auto. unfold resolve_torch. simpl.
  apply Nat.ltb_lt in H0. rewrite H0. reflexivity.
Qed.

Lemma resolve_explicit : forall r W g, resolve_rank_world (Some r) (Some W) g = (r, W).
Proof. reflexivity. Qed.

Lemma resolve_no_group : forall g, is_distributed g = false -> resolve_rank_world None None g = (0, 1).
Proof. intros g H. unfold resolve_rank_world, get_rank, get_world_size. rewrite H. reflexivity. Qed.

Lemma built_default_is_explicit : forall r W evs, joined_as r W evs ->
    (forall c draw, w_built c None None (pg_after pg_fresh evs) draw = w_run (w_set_world c W) draw r) /\
    (forall c draw, cb_built c None None (pg_after pg_fresh evs) draw = cb_run (cb_set_world c W) draw r) /\
    (r < W -> forall c draw, dist_built c None None (pg_after pg_fresh evs) draw
                             = Some (dist_run (d_set_world c W) draw r)).
Proof.
  intros r W evs H. repeat split; intros.
  - unfold w_built. rewrite (resolve_after_init r W) by auto. reflexivity.
  - unfold cb_built. rewrite (resolve_after_init r W) by auto. reflexivity.
  - unfold dist_built. rewrite (resolve_torch_after_init r W) by auto. reflexivity.
Qed.

(* the W processes of a group, each with a history of its own, samplers built with default arguments *)
Lemma map_seq_ext : forall {B} (f g : nat -> B) W, (forall r, r < W -> f r = g r) -> map f (seq 0 W) = map g (seq 0 W).
Proof. intros. apply map_ext_in. intros a Ha. apply in_seq in Ha. apply H. lia. Qed.

Lemma w_default_split : forall c draw E W (hist : nat -> list pg_event),
    len_oracle draw -> 1 <= W -> w_E c = Ok E ->
    (forall r, r < W -> joined_as r W (hist r)) ->
    split_of true W (E / W) (draw (w_seed c + w_epoch c)%Z [] E)
             (map (fun r => stream_of (r_out (w_built c None None (pg_after pg_fresh (hist r)) draw))) (seq 0 W)).
Proof.
  intros c draw E W hist Hd HW HE Hj.
  destruct (w_split (w_set_world c W) draw E Hd HW HE) as (_ & _ & Hs). simpl in Hs.
  erewrite map_seq_ext; [exact Hs|].
  intros r Hr. simpl. destruct (built_default_is_explicit r W (hist r) (Hj r Hr)) as (Hw & _). rewrite Hw. reflexivity.
Qed.

Lemma cb_default_split : forall c draw W (hist : nat -> list pg_event),
    perm_oracle draw -> cb_ctor_ok c = true -> 1 <= W ->
    (forall r, r < W -> joined_as r W (hist r)) ->
    exists G h, cb_global c draw = Ok (G, h) /\ length G = cb_E c /\
    split_of true W (cb_E c / W) G
             (map (fun r => stream_of (r_out (cb_built c None None (pg_after pg_fresh (hist r)) draw))) (seq 0 W)).
Proof.
  intros c draw W hist Hd Hc HW Hj.
  destruct (cb_split (cb_set_world c W) draw Hd Hc HW) as (G & h & HG & HL & _ & Hs).
  exists G, h. split; [exact HG|]. split; [exact HL|].
  simpl in Hs. erewrite map_seq_ext; [exact Hs|].
  intros r Hr. simpl. destruct (built_default_is_explicit r W (hist r) (Hj r Hr)) as (_ & Hcb & _). rewrite Hcb. reflexivity.
Qed.

Lemma dist_default_split : forall c draw W (hist : nat -> list pg_event),
    len_oracle draw -> dcfg_ok (d_set_world c W) ->
    (forall r, r < W -> joined_as r W (hist r)) ->
    exists G, dist_global c draw = Ok G /\ length G = d_n c /\
      split_of (d_drop c) W (num_samples (d_set_world c W)) G
               (map (fun r => match dist_built c None None (pg_after pg_fresh (hist r)) draw with
                              | Some m => stream_of (r_out m) | None => [] end) (seq 0 W)).
Proof.
  intros c draw W hist Hd Hok Hj.
  destruct (dist_interleave (d_set_world c W) draw Hd Hok) as (G & HG & HL & Hs).
  exists G. split; [exact HG|]. split; [exact HL|].
  simpl in Hs. erewrite map_seq_ext; [exact Hs|].
  intros r Hr. simpl. destruct (built_default_is_explicit r W (hist r) (Hj r Hr)) as (_ & _ & Hdd).
  rewrite Hdd by auto. reflexivity.
Qed.
