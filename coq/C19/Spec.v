(* C19 — what a transparent cache promises, without implementation vocabulary. *)
From Coq Require Import ZArith List Bool.
Import ListNotations.
From KD Require Import C19.Model.
Open Scope Z_scope.

Definition mem (i : Z) (l : list Z) : bool := existsb (Z.eqb i) l.

(* Sequential histories: what one process observes and which loads reach the wrapped
   dataset.  [seen] = indices accessed since the last clear.  Every access returns
   transform(base[i]); the wrapped dataset is asked exactly when i was not accessed
   since the last clear. *)
Fixpoint spec_seq (base tf : Z -> Z) (seen : list Z) (prog : list cmd) : list ev :=
  match prog with
  | [] => []
  | CClear :: r => EClear 0 :: spec_seq base tf [] r
  | CGet i :: r =>
      (if mem i seen then [] else [ELoad 0 i]) ++ ERet 0 i (RVal (tf (base i)))
      :: spec_seq base tf (i :: seen) r
  end.

Definition rets (l : list ev) : list (Z * res) :=
  flat_map (fun e => match e with ERet _ i r => [(i, r)] | _ => [] end) l.
Definition gets (prog : list cmd) : list Z :=
  flat_map (fun c => match c with CGet i => [i] | CClear => [] end) prog.

(* no index is loaded twice without a clear in between *)
Fixpoint loads_once (seen : list Z) (l : list ev) : Prop :=
  match l with
  | [] => True
  | ELoad _ i :: r => ~ In i seen /\ loads_once (i :: seen) r
  | EClear _ :: r => loads_once [] r
  | _ :: r => loads_once seen r
  end.

(* concurrent histories: every value any process ever gets back is transform(base[i]) *)
Definition values_equal_base (base tf : Z -> Z) (l : list ev) : Prop :=
  forall p i v, In (ERet p i (RVal v)) l -> v = tf (base i).
Definition no_error (l : list ev) : Prop := forall p i, ~ In (ERet p i RKeyError) l.

(* the cache only ever holds samples of the wrapped dataset *)
Definition dict_ok (base : Z -> Z) (d : dict) : Prop := Forall (fun kv => snd kv = base (fst kv)) d.
