"""C06 — resuming the interleaved scheduler yields the suffix of the uninterrupted run."""
from . import interleaved as I
from . import c04
from .common import coq

ID = "C06"
COQ_FILES = I.COQ_FILES + ["C04/PropertyC06.v"]
COQ_PRELUDE = I.COQ_PRELUDE
COQ_CHECK = "check"
COQ_CASE_TYPE = "case_t"
TRUSTED = I.TRUSTED
ASSUMPTIONS = c04.ASSUMPTIONS + ["checkpoints on epoch boundaries strictly before the budget",
                                 "side sampler objects of a resumed run carry on from the iteration count they have "
                                 "at the checkpoint in the uninterrupted run"]
RULE = ("generator of C04 restricted to cases with a start checkpoint (start_epoch / start_update / start_sample, "
        "80% on epoch boundaries; plus checkpoints given in two ways at once and start_sample off a batch boundary); "
        "the resumed stream is compared with the tail of a fresh run of the real code, for some cases also the batches "
        "the real DataLoader delivers; non-trivial = resumed run accepted and shorter than the fresh one; distinct by "
        "(geometry,budget,start,configs); plus iteration histories: the resumed object iterated twice / after an "
        "abandoned iteration, fresh and resumed schedulers built on ONE main sampler object and run in any order, "
        "foreign set_epoch calls between construction and iteration - every iteration compared with a fresh model "
        "and the final one with the suffix of an uninterrupted run on objects of its own; directed: start_sample = "
        "k*len / start_update = k*updates_per_epoch checkpoints of geometries with a short last batch (drop_last=False, "
        "len % B != 0) - refused, or accepted and then held to the suffix from epoch k; main samplers incl. kappadata's "
        "rank-aware samplers (one rank of world_size 1..3) and mocks with misleading length attributes")
run_impl = I.run_impl
coq_applicable = c04.coq_applicable
coq_case = c04.coq_case
features = c04.features


def gen_cases(rng, tier):
    out = []
    n = 600 if tier == "quick" else 5000
    tries = 0
    while len(out) < n and tries < 100 * n:
        tries += 1
        c = I.gen_bounded(rng, size="mid" if (tier == "thorough" and rng.random() < 0.3) else "small")
        if c["start"] is not None:
            out.append(c)
    if tier == "thorough":
        k = 0
        while k < 500:
            c = I.gen_bounded(rng, size="large")
            if c["start"] is not None:
                out.append(c)
                k += 1
    # iteration histories of resumed schedulers (epoch-dependent main orders favoured)
    k = 0
    while k < (130 if tier == "quick" else 1500):
        c = I.gen_history_case(rng, want=lambda c: c["start"] is not None)
        if c["start"] is None:
            continue
        if c["perm_seed"] is None and rng.random() < 0.6:
            c["perm_seed"] = rng.randint(0, 999)
        out.append(c)
        k += 1
    # what the constructor answers to a checkpoint given in two ways / off a batch boundary
    k = 0
    while k < (60 if tier == "quick" else 600):
        c = I.gen_bounded(rng)
        if c["start"] is not None:
            m = I.gen_mut(rng, c)
            if m[0].startswith("start_"):
                c["mut"] = m
                out.append(c)
                k += 1
    # checkpoints at k * len / k * updates_per_epoch of geometries with a short last batch (refused, or accepted and
    # then held to the claim)
    out += [I.gen_boundary_case(rng) for _ in range(60 if tier == "quick" else 600)]
    # the real DataLoader: what a resumed loader delivers = the tail of what the uninterrupted one delivers
    k = 0
    n_loader = 10 if tier == "quick" else 40
    while k < n_loader:
        c = I.gen_bounded(rng)
        if c["start"] is not None and c["N"] <= 16 and I.start_epoch_of(c) not in ("NotImplementedError", "AssertionError"):
            c["loader"] = 0 if (tier == "quick" or k % 3) else 2
            out.append(c)
            k += 1
    return out


def search_cases(rng, tier):
    for c in I.search_cases(rng, tier):
        if c["start"] is not None:
            yield c


def oracle(case, obs):
    return stream_oracle(case, obs) or ("harness_exception" not in obs and I.storage_violation(obs)) or None


def stream_oracle(case, obs):
    if "harness_exception" in obs:
        return "harness exception: " + obs["harness_exception"] + obs.get("tb", "")
    msg = I.history_violation(case, obs, None, "stream (incl. set_epoch / iter calls)")
    if msg:
        return msg
    if case["start"] is None:
        return None
    e0 = I.start_epoch_of(case)
    note = ""
    if e0 == "NotImplementedError" and obs["result"] == "ok" and not case.get("mut"):
        # a form of checkpoint the constructor may refuse (start_update / start_sample without drop_last).  It was
        # ACCEPTED: then the claim applies - the run resumes at the epoch boundary the checkpoint denotes in the
        # uninterrupted run (start_sample = k * len(main_sampler) is the end of epoch k)
        e0 = I.resume_point(case)
        if e0 is None or ["E", e0] not in obs.get("fresh", []):
            return None     # inside an epoch / not before the budget: outside the claim
        note = (f"checkpoint {case['start']} (accepted although drop_last=False) denotes the start of epoch {e0} of "
                f"the uninterrupted run: ")
    if isinstance(e0, str):
        # not an epoch boundary / not resumable / invalid arguments: any explicit refusal is fine, a stream is
        # outside the claim
        return None
    if obs["result"] in ("NotImplementedError",):
        return None  # explicit refusal is an acceptable answer
    if not I.before_budget(case, e0):
        return None  # a checkpoint at / past the budget: outside the claim (ASSUMPTIONS)
    if obs["result"] != "ok":
        return f"resumed run: {obs['result']}"
    fresh = obs.get("fresh", [])
    try:
        k = fresh.index(["E", e0])
    except ValueError:
        return f"fresh run never reaches epoch {e0} although the checkpoint lies before the budget"
    tail = fresh[k:]
    if tail != obs["log"]:
        d = next((i for i in range(min(len(tail), len(obs["log"]))) if tail[i] != obs["log"][i]),
                 min(len(tail), len(obs["log"])))
        return (I.items_tag(tail, obs["log"]) + note + f"resumed stream differs from the uninterrupted run's suffix at event {d}: "
                f"uninterrupted {tail[d:d + 8]} resumed {obs['log'][d:d + 8]} "
                f"(lengths {len(tail)} vs {len(obs['log'])})")
    if case.get("loader") is not None:
        lb, fl = obs.get("loader_batches"), obs.get("fresh_loader")
        if not isinstance(lb, list) or not isinstance(fl, list):
            return f"DataLoader(num_workers={case['loader']}) failed: resumed {str(lb)[:200]} fresh {str(fl)[:200]}"
        nb = sum(1 for ev in fresh[:k] if ev[0] == "Y" and ev[1])
        if fl[nb:] != lb:
            d = next((i for i in range(min(len(fl) - nb, len(lb))) if fl[nb + i] != lb[i]), min(len(fl) - nb, len(lb)))
            return (f"DataLoader(num_workers={case['loader']}): the resumed loader's batch {d} differs from batch "
                    f"{nb + d} of the uninterrupted loader: {fl[nb + d:nb + d + 1]} vs {lb[d:d + 1]} "
                    f"({len(fl) - nb} vs {len(lb)} batches)")
    return None


def nontrivial_key(case, obs):
    if obs.get("result") != "ok" or case["start"] is None or len(obs.get("fresh", [])) <= len(obs["log"]):
        return None
    return (case["N"], case["B"], case["drop_last"], case["D"], tuple(case["budget"]), tuple(case["start"]),
            len(case["sides"]), case.get("loader"), case.get("main_kind", "lazy"), len(case.get("scenario") or []))


shrink = I.shrink_keeping(oracle, run_impl)
