(* Property C04 — interleaved scheduler: main stream, batch cutting and stopping
   point are exact.  Theorems only; proofs live in the other files of C04/. *)
From Coq Require Import ZArith List Bool.
Import ListNotations.
From KD Require Import C04.Model C04.Spec C04.Lists C04.Arith C04.Proofs C04.Corollaries C04.Batches C04.Bounds C04.Order C04.Example.
Open Scope Z_scope.

(* The model of _training_loop, started at any epoch boundary (with the side
   samplers iterated pn times before), IS the closed-form run: epoch after
   epoch, announce e, show the epoch's updates (batch, then due passes) up to
   and including the first one reaching a budget. *)
Theorem c04_model_is_spec : forall c mi, WF c mi -> forall n e pn, length pn = length (sides c) ->
  run c mi n (init_state e (upe c * e) (spe c * e) pn) = spec_run c mi e pn n.
Proof. exact model_eq_spec. Qed.
Print Assumptions c04_model_is_spec.

(* the "len(main_sampler) < batch size" adjustment branches of _training_loop
   are dead: the loop runs with the constructor's batch_size and samples_per_epoch *)
Theorem c04_loop_geometry : forall c mi, WF c mi -> loop_geom c = (cB c, spe c).
Proof. exact loop_geom_eq. Qed.
Print Assumptions c04_loop_geometry.

(* the batches of epoch e: the first samples_per_epoch indices of the main
   sampler's own iteration, cut by batch_size; only the last batch may be short;
   there are updates_per_epoch of them *)
Theorem c04_epoch_batches : forall c mi, WF c mi -> forall e,
  concat (epoch_batches c mi e) = firstn (Z.to_nat (spe c)) (mi e) /\
  shape (Z.to_nat (cB c)) (epoch_batches c mi e) /\
  Z.of_nat (length (epoch_batches c mi e)) = upe c.
Proof. exact epoch_batches_facts. Qed.
Print Assumptions c04_epoch_batches.

(* what is dropped: nothing without drop_last, else the remainder modulo the
   dropping unit (drop_last_batch_size if given, else batch_size) *)
Theorem c04_samples_per_epoch : forall c mi, WF c mi ->
  if drop_last c
  then let unit := or_default (cD c) (cB c) in spe c mod unit = 0 /\ spe c <= cN c < spe c + unit
  else spe c = cN c.
Proof. exact spe_spec. Qed.
Print Assumptions c04_samples_per_epoch.

(* the main part of every update is exactly its batch with only the last index flagged full *)
Theorem c04_update_main_part : forall c e bs pn j,
  filter is_main (u_events (upd_at c e bs pn j)) = emit Main (nth j bs []).
Proof. exact update_main_part. Qed.
Print Assumptions c04_update_main_part.

(* the stop is exact, per epoch: no shown update before the last reaches a
   budget; an epoch that stops the run ends with an update that does; otherwise
   the whole epoch is shown *)
Theorem c04_stop_exact : forall c mi e pn,
  let us := fst (take_until (hit c) (epoch_updates c mi e pn)) in
  Forall (fun u => hit c u = false) (removelast us) /\
  (epoch_hits c mi e = true -> exists u, us = removelast us ++ [u] /\ hit c u = true) /\
  (epoch_hits c mi e = false -> us = epoch_updates c mi e pn /\ Forall (fun u => hit c u = false) us).
Proof. exact stop_exact. Qed.
Print Assumptions c04_stop_exact.

(* ... and for the run as a whole, for the three budget kinds jointly (the loop
   tests each of self.epochs / self.updates / self.samples that is given): the
   stream is what the run's updates show, one after the other over all epochs,
   up to and including the FIRST update at which one of the given budgets is
   reached - not one update earlier or later - and such an update exists *)
Theorem c04_stop_global : forall c mi, WF c mi -> forall n e0 pn tr, length pn = length (sides c) ->
  run c mi n (start_state c e0 pn) = Some tr ->
  snd (take_until (hit c) (all_updates c mi e0 pn n)) = true /\
  strip tr = flat_map u_events (fst (take_until (hit c) (all_updates c mi e0 pn n))).
Proof. exact stop_global_run. Qed.
Print Assumptions c04_stop_global.

(* it always ends: from every epoch boundary strictly before the given budgets
   the run terminates within the fuel the model computes from the remaining budget *)
Theorem c04_always_ends : forall c mi, WF c mi -> forall e pn, length pn = length (sides c) ->
  before_budget c e ->
  exists tr, run c mi (default_fuel c (start_state c e pn)) (start_state c e pn) = Some tr.
Proof. exact sampler_terminates. Qed.
Print Assumptions c04_always_ends.

(* the answer does not depend on the fuel once there is enough *)
Theorem c04_fuel_irrelevant : forall c mi, WF c mi -> forall n e pn tr m, length pn = length (sides c) ->
  run c mi n (start_state c e pn) = Some tr -> run c mi (n + m) (start_state c e pn) = Some tr.
Proof. exact run_fuel_mono. Qed.
Print Assumptions c04_fuel_irrelevant.

(* "always ends", quantitatively: explicit bounds on what a run started at
   epoch e0 yields.  n_main / n_upd / n_yield = number of main indices / updates /
   all indices in the stream.  epochs = E: at most (E - e0) * samples_per_epoch
   main indices in at most (E - e0) * updates_per_epoch updates; updates = U: at
   most U - u0 updates; samples = X: fewer than X - s0 + batch_size main indices;
   always at most batch_size main indices per update and at most one pass over
   every config per update *)
Theorem c04_yield_bound : forall c mi, WF c mi -> forall n e0 pn tr, length pn = length (sides c) ->
  run c mi n (start_state c e0 pn) = Some tr ->
  (forall E, bE c = Some E -> e0 < E -> n_main tr <= (E - e0) * spe c /\ n_upd tr <= (E - e0) * upe c) /\
  (forall U, bU c = Some U -> e0 * upe c < U -> n_upd tr <= U - e0 * upe c) /\
  (forall X, bS c = Some X -> e0 * spe c < X -> n_main tr <= X - e0 * spe c + cB c - 1) /\
  n_main tr <= n_upd tr * cB c /\
  n_yield tr <= n_main tr + n_upd tr * sum_slen c.
Proof. exact yield_bound. Qed.
Print Assumptions c04_yield_bound.

(* "epoch e announced via set_epoch BEFORE it starts": the calls the main
   sampler object receives during a run started at epoch e0 (0, or the
   checkpoint of a resume) are exactly set_epoch(e0), iter(), set_epoch(e0+1),
   iter(), ... - each epoch's announcement precedes the start (the call of
   iter(main_sampler)) of that epoch's iteration, the first epoch included, and
   the iterations consumed are those of e0, e0+1, ...  A sampler that fixes its
   order eagerly in __iter__ therefore sees the same epoch as a lazy generator *)
Theorem c04_set_epoch_precedes_iter_start : forall c mi, WF c mi -> forall n e0 pn tr,
  length pn = length (sides c) -> run c mi n (start_state c e0 pn) = Some tr ->
  exists k, ctl tr = ctl_seq e0 (S k) /\ iter_labels tr = zseq e0 (S k).
Proof. exact set_epoch_precedes_iter_start. Qed.
Print Assumptions c04_set_epoch_precedes_iter_start.

(* always on a batch boundary: the batch sampler's trailing assertion cannot fire *)
Theorem c04_ends_on_batch_boundary : forall c mi, WF c mi -> forall n e pn tr, length pn = length (sides c) ->
  run c mi n (start_state c e pn) = Some tr -> snd (batches (render tr)) = true.
Proof. exact ends_on_batch_boundary. Qed.
Print Assumptions c04_ends_on_batch_boundary.

(* the constructor: a call that passes all assertions has arguments satisfying
   cfg_ok (batch_size in 1..len, drop_last_batch_size a multiple of batch_size
   in batch_size..len and only with drop_last, every config with an interval,
   all intervals and batch sizes positive) and EXACTLY ONE non-negative budget;
   conversely such arguments pass, and the outcome is the checkpoint's *)
Theorem c04_ctor_ok : forall a c e u s, ctor a = Ok c e u s ->
  c = cfg_of_args a /\ args_valid a /\
  checkpoint c (a_start_epoch a) (a_start_update a) (a_start_sample a) = Start e u s.
Proof. exact ctor_ok. Qed.
Print Assumptions c04_ctor_ok.

Theorem c04_ctor_complete : forall a, args_valid a ->
  ctor a = match checkpoint (cfg_of_args a) (a_start_epoch a) (a_start_update a) (a_start_sample a) with
           | Start e u s => Ok (cfg_of_args a) e u s
           | NotImplemented => CNotImplemented
           | AssertFail => CAssertFail
           end.
Proof. exact ctor_complete. Qed.
Print Assumptions c04_ctor_complete.

(* so the premise WF of the theorems above is not vacuous on real use: whatever
   the constructor accepts is well-formed, provided len() of the samplers is
   what their iterations yield (the property's domain) *)
Theorem c04_ctor_accepts_wf : forall a c e u s mi, ctor a = Ok c e u s -> env_ok c mi -> WF c mi.
Proof. exact ctor_accepts_wf. Qed.
Print Assumptions c04_ctor_accepts_wf.

(* simultaneously live iterations (a mid-training `next(iter(loader))` peek): an
   iteration owns its counters, so all another live iteration can change for it
   is the iteration number the shared side sampler objects are at - and the
   announcements, iteration starts, main indices with their flags (hence the
   stopping point) are the same whatever those numbers are.  (The harness runs
   the REAL object with several live iterators advanced alternately and compares
   each with the stream of a fresh configuration from its own start.) *)
Theorem c04_iterations_independent : forall c mi, WF c mi -> forall n e pn pn',
  length pn = length (sides c) -> length pn' = length (sides c) ->
  option_map (filter not_side) (run c mi n (start_state c e pn))
  = option_map (filter not_side) (run c mi n (start_state c e pn')).
Proof. exact iterations_independent. Qed.
Print Assumptions c04_iterations_independent.

(* non-vacuity: an accepted constructor call exists, is well-formed and before its budget *)
Example c04_premises_satisfiable :
  ctor ex_args = Ok ex_cfg 0 0 0 /\ WF ex_cfg ex_iter /\ before_budget ex_cfg 0 /\ args_valid ex_args.
Proof.
  split; [exact ex_ctor|]. split; [exact ex_wf|]. split.
  - unfold before_budget. cbn. repeat split; try discriminate; intros ? H; inversion H; reflexivity.
  - exact (proj1 (proj2 (ctor_ok _ _ _ _ _ ex_ctor))).
Qed.
Example c04_example_run :
  option_map (fun l => length l) (run ex_cfg ex_iter 4 (start_state ex_cfg 0 [0; 0]%nat)) = Some 42%nat.
Proof. vm_compute. reflexivity. Qed.
Example c04_example_order :
  option_map ctl (run ex_cfg ex_iter 4 (start_state ex_cfg 0 [0; 0]%nat)) = Some (ctl_seq 0 2).
Proof. vm_compute. reflexivity. Qed.
Example c04_example_live :
  option_map (fun l => length (filter not_side l)) (run ex_cfg ex_iter 4 (start_state ex_cfg 0 [3; 5]%nat))
  = option_map (fun l => length (filter not_side l)) (run ex_cfg ex_iter 4 (start_state ex_cfg 0 [0; 0]%nat)).
Proof. vm_compute. reflexivity. Qed.
