(* C02 -- histories of accesses (Model.run_hist): accessors are pure.  Proofs; statements repeated in Property.v. *)
From Coq Require Import ZArith List Bool Lia.
Import ListNotations.
From KD Require Import C02.Model C02.Spec C02.Proofs.
Open Scope Z_scope.

(* every step of a history returns what that access alone returns: nothing an earlier step did -- on this stack, on a
   part of it, on another stack over the same parts -- can change it *)
Lemma hist_step_alone : forall h t s o,
  nth_error h t = Some (s, o) -> nth_error (run_hist h) t = Some (eval_op s o).
Proof. intros h t s o H. unfold run_hist. now rewrite nth_error_map, H. Qed.

(* asking the same stack the same thing again gives the same answer (getall is idempotent) *)
Lemma hist_same_step_same_answer : forall h t1 t2 s o,
  nth_error h t1 = Some (s, o) -> nth_error h t2 = Some (s, o) ->
  nth_error (run_hist h) t1 = nth_error (run_hist h) t2.
Proof. intros. now rewrite (hist_step_alone h t1 s o), (hist_step_alone h t2 s o). Qed.

(* a history in front changes nothing for the history after it *)
Lemma hist_prefix_irrelevant : forall h1 h2, run_hist (h1 ++ h2) = run_hist h1 ++ run_hist h2.
Proof. intros. unfold run_hist. apply map_app. Qed.

(* hence: wherever it stands in a history, getall_x on a valid stack that offers it returns the index map, len its size,
   getitem_x(k) entry k of it *)
Lemma hist_getall_is_map : forall h t s,
  valid s = true -> lists_ok s = true -> has_getall s = true ->
  nth_error h t = Some (s, HGetall) ->
  nth_error (run_hist h) t = Some (HRAll (GOk (yields_list s) (map_of s))).
Proof.
  intros h t s V L G H. rewrite (hist_step_alone h t s HGetall H). simpl.
  now destruct (getall_offered_is_map s V L G) as [-> _].
Qed.

Lemma hist_len_item_is_map : forall h t s,
  valid s = true -> is_fin (den_of s) = true ->
  (nth_error h t = Some (s, HLen) -> nth_error (run_hist h) t = Some (HRLen (Some (zlen (map_of s))))) /\
  (forall k, - zlen (map_of s) <= k < zlen (map_of s) -> nth_error h t = Some (s, HItem k) ->
     nth_error (run_hist h) t =
     Some (HRItem (nth_error (map_of s) (Z.to_nat (if k <? 0 then zlen (map_of s) + k else k))))).
Proof.
  intros h t s V F. split.
  - intro H. rewrite (hist_step_alone h t s HLen H). simpl. now rewrite (len_is_length_map s V F).
  - intros k K H. rewrite (hist_step_alone h t s (HItem k) H). simpl. now rewrite (resolve_is_nth_map s k V F K).
Qed.

(* a kept accessor answers like a freshly fetched one, i.e. as the CURRENT index maps say: item k of the current map, the
   current length, whatever the stack was when the accessor was obtained *)
Lemma kept_is_fresh : forall fetched cur o, kept_eval fetched cur o = kept_eval cur cur o.
Proof. reflexivity. Qed.

Lemma kept_item_is_current_map : forall fetched cur k,
  valid cur = true -> is_fin (den_of cur) = true -> - zlen (map_of cur) <= k < zlen (map_of cur) ->
  kept_eval fetched cur (HItem k) =
  HRItem (nth_error (map_of cur) (Z.to_nat (if k <? 0 then zlen (map_of cur) + k else k))) /\
  kept_eval fetched cur HLen = HRLen (Some (zlen (map_of cur))).
Proof.
  intros f c k V F K. unfold kept_eval. simpl.
  now rewrite (resolve_is_nth_map c k V F K), (len_is_length_map c V F).
Qed.
