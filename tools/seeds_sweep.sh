#!/bin/bash
# tools/seeds_sweep.sh "<seeds>" [P]  — false-alarm sweep: runs every claimed quick check on the unchanged tree for each VERIF_SEED
cd "$(dirname "$0")/.."
ids=$(python3 -c "import json;print(' '.join(c['property_id'] for c in json.load(open('MANIFEST.json'))['checks']))")
mkdir -p /tmp/sweep
for s in $1; do
  echo $ids | tr ' ' '\n' | xargs -P ${2:-5} -I{} sh -c "VERIF_SEED=$s ./check {} --tier quick > /tmp/sweep/{}_$s.log 2>&1; echo seed=$s {} rc=\$? \$(tail -1 /tmp/sweep/{}_$s.log | cut -c1-150)" | grep -v "rc=0" 
  echo "seed $s done: $(grep -l '^VIOLATION' /tmp/sweep/*_$s.log 2>/dev/null | wc -l) checks with VIOLATION lines"
done
