import argparse
import importlib
import os
import sys

from . import common


def main():
    ap = argparse.ArgumentParser()
    ap.add_argument("prop")
    ap.add_argument("--tier", default=os.environ.get("VERIF_TIER", "quick"), choices=["quick", "thorough"])
    ap.add_argument("--replay", default=None)
    ap.add_argument("--seed", type=int, default=int(os.environ.get("VERIF_SEED", "0")))
    a = ap.parse_args()
    if a.prop == "--setup" or a.prop == "setup":
        sys.exit(common.setup_all())
    mod = importlib.import_module("harness." + a.prop.lower())
    sys.exit(common.run_check(mod, a.tier, a.seed, a.replay))


if __name__ == "__main__":
    main()
