From Coq Require Import ZArith List Bool.
From KD Require Import C17.Model C17.Spec.
