"""C12 — rank-aware samplers split one global epoch draw evenly and reproducibly."""
from . import samplers as S
from .common import coq

ID = "C12"
COQ_FILES = ["C12/Model.v", "C12/Spec.v", "C12/Check.v", "C12/Proofs.v", "C12/Property.v"]
COQ_PRELUDE = ("From Coq Require Import ZArith List Bool.\nImport ListNotations.\n"
               "From KD Require Import C12.Model C12.Spec C12.Check.\n")
COQ_CHECK = "check"
COQ_CASE_TYPE = "case_t"
SHARD = 250
ALLOWED_AXIOMS = []
TRUSTED = [
    "hand-written model coq/C12/Model.v of DistributedSampler (incl. torch's __init__/__iter__ it inherits), "
    "RandomSampler, ClassBalancedSampler, WeightedSampler; tied to KD_REPO by this run's correspondence evaluation "
    "(stream, len, manual_seed arguments and requested draw sizes of every rank compared)",
    "oracle contract: torch.randperm(n)/randint(size=n) return n entries, randperm a permutation of 0..n-1 "
    "(checked on every recorded draw); a torch.Generator is a deterministic function of its seed and the requests "
    "made on it (observed: equal seeds gave equal draws on all ranks in every case)",
    "math.ceil(a / b) on floats equals integer ceiling for the sizes used (nat model, truncated subtraction for n < W)",
    "harness/samplers.py spies (torch.Generator subclass, wrapped randperm/randint/multinomial) and case rendering",
    "'set_epoch changes the draw' is proved for the seed argument only; that torch then draws differently is observed "
    "(requests of >= 10 elements)",
]
ASSUMPTIONS = ["world size W >= 1, rank < W, num_repeats >= 1; num_repeats > 1 requires shuffle (the code asserts it)",
               "RandomSampler: num_samples=None, explicit generator, n >= 1",
               "WeightedSampler: 1 <= size <= n or None, n >= 1; ClassBalancedSampler in C12: only the rank split "
               "(composition is C13)"]
RULE = ("dist 55% / cb 15% / weighted 15% / rand 15%; n in 0..25 (thorough ..60) incl. n < W, W in 1..7 (thorough ..9), all ranks, "
        "epochs 0..3, seeds 0..999, num_repeats 1..4, drop_last and shuffle on/off; non-trivial = at least 2 ranks and "
        "a non-empty merged stream; distinct by (kind, n, W, rep, drop_last, shuffle, epoch)")


def gen_case(rng, big=False):
    r = rng.random()
    W = rng.choice([1, 2, 2, 3, 3, 4, 5, 6, 7] + ([8, 9] if big else []))
    seed = rng.randrange(1000)
    epoch = rng.choice([None, 0, 1, 2, 3])
    nmax = 60 if big else 25
    if r < 0.55:
        n = rng.choice([rng.randint(0, nmax), rng.randint(0, W + 1), rng.randint(0, 8)])
        rep = rng.choice([1, 1, 2, 2, 3, 4])
        return {"kind": "dist", "n": n, "W": W, "shuffle": rng.random() < 0.85, "seed": seed, "epoch": epoch,
                "drop_last": rng.random() < 0.5, "rep": rep}
    if r < 0.70:
        C = rng.choice([2, 2, 3, 3, 4, 5])
        n = rng.randint(C, nmax)
        classes = list(range(C)) + [rng.randrange(C) for _ in range(n - C)]
        rng.shuffle(classes)
        q = rng.random()
        if q < 0.08:      # a class is missing
            miss = rng.randrange(C)
            classes = [c if c != miss else (miss + 1) % C for c in classes]
        elif q < 0.12:    # a class is missing but a label beyond the classes keeps the number of distinct labels
            miss = rng.randrange(C)
            classes = [c if c != miss else C for c in classes]
        elif q < 0.20:    # unlabeled entries
            for _ in range(rng.randint(1, 3)):
                classes[rng.randrange(n)] = -1
        dim = C if C > 2 or rng.random() < 0.7 else 1
        return {"kind": "cb", "classes": classes, "dim": dim, "spc": rng.choice([None, None, 0, 1, 2, 3, 5, 8, 13]),
                "shuffle": rng.random() < 0.85, "seed": seed, "epoch": epoch, "W": W}
    if r < 0.85:
        n = rng.randint(1, nmax)
        weights = [rng.choice([0.5, 1.0, 2.0, 3.5, 10.0]) for _ in range(n)]
        size = rng.choice([None, None, rng.randint(1, n), rng.randint(1, n), n + rng.randint(1, 3)])
        return {"kind": "weighted", "n": n, "weights": weights, "size": size, "seed": seed, "epoch": epoch, "W": W}
    n = rng.randint(1, 70 if big else 40)
    return {"kind": "rand", "n": n, "W": 1, "rep": rng.choice([1, 2, 3, 4]), "replacement": rng.random() < 0.4,
            "seed": seed, "epoch": None}


def gen_cases(rng, tier):
    if tier == "quick":
        return [gen_case(rng) for _ in range(900)]
    return [gen_case(rng) for _ in range(6000)] + [gen_case(rng, big=True) for _ in range(2500)]


def search_cases(rng, tier):
    # directed: tiny datasets on many ranks first
    for n in range(0, 6):
        for W in range(1, 8):
            for rep in (1, 2, 3):
                for dl in (False, True):
                    yield {"kind": "dist", "n": n, "W": W, "shuffle": True, "seed": 0, "epoch": 0, "drop_last": dl,
                           "rep": rep}
    for _ in range(20000):
        yield gen_case(rng, big=rng.random() < 0.3)


def shrink(c):
    if c.get("epoch") not in (None, 0):
        yield {**c, "epoch": 0}
    if c.get("seed"):
        yield {**c, "seed": 0}
    if c["kind"] in ("dist", "rand"):
        if c["n"] > 0:
            yield {**c, "n": c["n"] - 1}
        if c["rep"] > 1:
            yield {**c, "rep": c["rep"] - 1}
    if c["kind"] != "rand" and c["W"] > 1:
        yield {**c, "W": c["W"] - 1}
    if c["kind"] == "cb":
        for i in range(len(c["classes"])):
            yield {**c, "classes": c["classes"][:i] + c["classes"][i + 1:]}
        if c["spc"] not in (None, 1):
            yield {**c, "spc": 1}
    if c["kind"] == "weighted" and c["n"] > 1:
        yield {**c, "n": c["n"] - 1, "weights": c["weights"][:-1],
               "size": None if c["size"] is None else min(c["size"], c["n"] - 1)}


def run_impl(case):
    W = case["W"]
    obs = {"ranks": [S.run_rank(case, r, W) for r in range(W)]}
    if case["kind"] == "rand":
        obs["G"] = obs["ranks"][0]["stream"]
        obs["again"] = S.run_rank(case, 0, 1)["stream"]
        return obs
    g = S.run_rank(case, 0, 1)
    obs["G"] = g["stream"]
    obs["G_result"] = g["result"]
    e = case["epoch"] or 0
    # equal (seed, epoch) reproduces; equal seed + epoch as well; the next epoch draws differently
    obs["again"] = S.run_rank(case, W - 1, W)["stream"]
    obs["shifted"] = S.run_rank(case, W - 1, W, epoch=e + 1, seed=case["seed"] - 1)["stream"]
    nxt = S.run_rank(case, 0, W, epoch=e + 1)
    obs["next"] = {"seeds": nxt["seeds"], "draws": nxt["draws"], "result": nxt["result"]}
    return obs


def expected_result(case):
    """what the documented domain says about construction/iteration"""
    k = case["kind"]
    if k == "dist":
        return "AssertionError" if case["rep"] > 1 and not case["shuffle"] else "ok"
    if k == "weighted":
        return "AssertionError" if case["size"] is not None and case["size"] > case["n"] else "ok"
    if k == "cb":
        C = max(2, case["dim"])
        present = set(case["classes"])
        return "ok" if present == set(range(C)) else "AssertionError"
    return "ok"


def oracle(case, obs):
    if "harness_exception" in obs:
        return "harness exception: " + obs["harness_exception"] + obs.get("tb", "")
    W, k = case["W"], case["kind"]
    ranks = obs["ranks"]
    exp = expected_result(case)
    for r, o in enumerate(ranks):
        if o["result"] == "RUNAWAY":
            return f"rank {r}: construction/iteration does not return (more than {S.MAX_DRAWS} draws)"
        if o["result"] != exp:
            return f"rank {r}: expected {exp}, got {o['result']}"
        if o["alien"]:
            return f"rank {r}: a draw was made without the epoch's generator (or with replacement)"
    if exp != "ok":
        return None
    L = ranks[0]["len"]
    for r, o in enumerate(ranks):
        if o["len"] != L:
            return f"len(sampler) differs between ranks: rank 0 {L}, rank {r} {o['len']}"
        if len(o["stream"]) != L:
            return f"rank {r} yields {len(o['stream'])} indices but len(sampler) = {L}"
    G = obs["G"]
    T = W * L
    merged = S.interleave([o["stream"] for o in ranks])
    if k != "rand" and obs.get("G_result") != "ok":
        return "world-size-1 sampler failed: " + str(obs.get("G_result"))
    drop = case["drop_last"] if k == "dist" else True
    if drop:
        if not (T <= len(G) and len(G) - T < W):
            return f"ranks together yield {T} entries of a global draw of {len(G)} (W={W}): more than trailing entries dropped"
        if merged != G[:T]:
            return f"interleaved rank streams {merged} are not a prefix of the global draw {G}"
    else:
        if not (len(G) <= T and T - len(G) < W):
            return f"ranks together yield {T} entries of a global draw of {len(G)} (W={W})"
        if merged != [G[i % len(G)] for i in range(T)]:
            return f"interleaved rank streams {merged} are not the global draw {G} wrapped around"
    se = case["seed"] + (case["epoch"] or 0)
    for r, o in enumerate(ranks):
        if k != "rand" and any(s != se for s in o["seeds"]):
            return f"rank {r} seeds its generator with {o['seeds']}, not seed + epoch = {se}"
        if o["draws"] != ranks[0]["draws"]:
            return f"rank {r} drew {o['draws']} but rank 0 drew {ranks[0]['draws']} (same seed and epoch)"
        for d, kind in zip(o["draws"], o["kinds"]):
            if len(d[1]) != d[0] or (kind == "randperm" and not S.is_perm(d[1], d[0])):
                return f"torch contract broken: {kind}({d[0]}) returned {d[1]}"
    if obs["again"] != ranks[-1]["stream"]:
        return "a second sampler with equal (seed, epoch) yields another stream"
    if k != "rand":
        if obs["shifted"] != ranks[-1]["stream"]:
            return "(seed - 1, epoch + 1) yields another stream than (seed, epoch)"
        nx = obs["next"]
        if ranks[0]["seeds"] and nx["seeds"] == ranks[0]["seeds"]:
            return "set_epoch(epoch + 1) does not change the seed of the generator"
        if ranks[0]["draws"] and ranks[0]["draws"][0][0] >= 10 and nx["draws"] == ranks[0]["draws"]:
            return "set_epoch(epoch + 1) does not change the draw"
    # repeated augmentation: slot k of the global draw holds perm[k // r]
    if k in ("dist", "rand") and ranks[0]["draws"] and not (k == "rand" and case["rep"] == 1 and case["replacement"]):
        perm = ranks[0]["draws"][0][1]
        for i, g in enumerate(G):
            if g != perm[i // case["rep"]]:
                return f"slot {i} of the global draw is {g}, not perm[{i} // {case['rep']}] = {perm[i // case['rep']]}"
    if k == "dist" and not case["shuffle"] and G != list(range(case["n"])):
        return "shuffle=False does not yield 0..n-1"
    if k == "rand" and len(G) != case["n"]:
        return f"RandomSampler yields {len(G)} indices for n = {case['n']}"
    return None


def coq_applicable(case, obs):
    if "harness_exception" in obs:
        return False
    return all(o["result"] in S.CODE for o in obs["ranks"])


def coq_case(case, obs):
    return coq((S.coq_cfg(case), [S.coq_rank(o) for o in obs["ranks"]], S.nats(obs["G"])))


def features(case, obs):
    yield "kind=" + case["kind"]
    yield "W=%d" % case["W"]
    if "ranks" in obs:
        yield "result=" + obs["ranks"][0]["result"].split(":")[0]
    if case["kind"] == "dist":
        yield "dist:n<W=%s" % (case["n"] < case["W"])
        yield "dist:rep=%d" % case["rep"]
        yield "dist:drop_last=%s" % case["drop_last"]
        n, W = case["n"], case["W"]
        if not case["drop_last"] and n and (-n) % W > n:
            yield "dist:padding>len"
    yield "epoch=%s" % case["epoch"]


def nontrivial_key(case, obs):
    if "ranks" not in obs or case["W"] < 2 or not any(o["stream"] for o in obs["ranks"]):
        return None
    return (case["kind"], case.get("n", len(case.get("classes", []))), case["W"], case.get("rep"),
            case.get("drop_last"), case.get("shuffle"), case["epoch"])
