#!/bin/bash
# tools/apply_fix.sh fixes/Cxx_name.patch  — applies one repair to /repo as its own "fix:" commit (message = the .txt)
p=$(readlink -f "$1"); t="${p%.patch}.txt"
[ -f "$t" ] || { echo "no message file $t"; exit 2; }
head -1 "$t" | grep -q '^fix: ' || { echo "message does not start with fix:"; exit 2; }
cd /repo || exit 2
[ -z "$(git status --porcelain)" ] || { echo "/repo not clean"; exit 2; }
git apply --check "$p" || { echo "patch does not apply"; exit 3; }
msg=$(mktemp); { head -1 "$t"; echo; tail -n +2 "$t" | sed '/./,$!d'; } > "$msg"
git apply "$p" && git add -A && git commit -q -F "$msg"; rm -f "$msg"; git log --oneline | head -1
