(* arithmetic facts: interval crossing, epoch geometry *)
From Coq Require Import ZArith List Bool Lia.
Import ListNotations.
From KD Require Import C04.Model C04.Spec C04.Lists.
Open Scope Z_scope.

(* the implementation's every_n_samples test is "a multiple of n in (a, b]" *)
Lemma samples_test_crossed n a b : 0 < n -> a < b ->
  ((b mod n =? 0) || (a / n <? b / n)) = crossed n a b.
Proof.
  intros Hn Hab. unfold crossed.
  destruct (a / n <? b / n) eqn:E; [apply orb_true_r|]. rewrite orb_false_r.
  apply Z.ltb_ge in E. apply Z.eqb_neq. intro Hm.
  assert (b = n * (b / n)) as Hb by (rewrite (Z.div_mod b n) at 1 by lia; lia).
  assert (a / n <= b / n) by (apply Z.div_le_mono; lia).
  assert (a / n = b / n) as Heq by lia.
  pose proof (Z.mul_div_le a n Hn). rewrite Heq in *. lia.
Qed.

Lemma crossed_iff n a b : 0 < n ->
  crossed n a b = true <-> exists m, a < m * n <= b.
Proof.
  intros Hn. unfold crossed. rewrite Z.ltb_lt. split.
  - intros H. exists (b / n). split.
    + pose proof (Z.mod_pos_bound a n Hn). pose proof (Z.div_mod a n).
      assert (a / n + 1 <= b / n) by lia. nia.
    + pose proof (Z.mul_div_le b n Hn). lia.
  - intros [m [H1 H2]].
    assert (m <= b / n) by (apply Z.div_le_lower_bound; lia).
    assert (a / n < m) by (apply Z.div_lt_upper_bound; lia).
    lia.
Qed.

(* ---- well-formed configurations: the constructor's assertions plus the
   property's domain (main sampler yields len(sampler) indices) ---- *)
Definition wf_side (sc : side_cfg) : Prop :=
  (forall n, ene sc = Some n -> 0 < n) /\ (forall n, enu sc = Some n -> 0 < n) /\
  (forall n, ens sc = Some n -> 0 < n) /\ (forall n, sbs sc = Some n -> 0 < n) /\
  slen sc = len (sidx sc) /\ 0 <= dslen sc.

Record WF (c : cfg) (mi : Z -> list Z) : Prop := {
  wf_B : 1 <= cB c;
  wf_BN : cB c <= cN c;
  wf_D : forall d, cD c = Some d -> drop_last c = true /\ (exists m, d = m * cB c) /\ cB c <= d <= cN c;
  wf_iter : forall e, len (mi e) = cN c;
  wf_sides : Forall wf_side (sides c);
  wf_dsN : 0 <= dsN c }.

Section Geometry.
  Variables (c : cfg) (mi : Z -> list Z).
  Hypothesis W : WF c mi.

  Lemma spe_range : 1 <= spe c <= cN c.
  Proof.
    destruct W as [HB HBN HD _ _ _]. unfold spe.
    destruct (drop_last c); [|lia].
    assert (forall bs, cB c <= bs <= cN c -> 1 <= cN c / bs * bs <= cN c) as H.
    { intros bs Hbs. assert (0 < bs) by lia. split.
      - assert (0 < cN c / bs) by (apply Z.div_str_pos; lia). nia.
      - pose proof (Z.mul_div_le (cN c) bs). lia. }
    unfold or_default. destruct (cD c) as [d|] eqn:ED.
    - destruct (HD d eq_refl) as [_ [_ Hr]]. apply H. lia.
    - apply H. lia.
  Qed.

  (* with drop_last an epoch consists of whole batches *)
  Lemma spe_upe_drop : drop_last c = true -> spe c = upe c * cB c.
  Proof.
    destruct W as [HB HBN HD _ _ _]. intros Hd. unfold upe, spe. rewrite Hd.
    unfold or_default. destruct (cD c) as [d|] eqn:ED.
    - destruct (HD d eq_refl) as [_ [[m Hm] Hr]]. subst d.
      replace (cN c / (m * cB c) * (m * cB c)) with (cN c / (m * cB c) * m * cB c) by ring.
      rewrite Z.div_mul by lia. reflexivity.
    - rewrite Z.div_mul by lia. reflexivity.
  Qed.

  (* updates per epoch = ceil(samples per epoch / batch size) *)
  Lemma upe_ceil : (spe c + cB c - 1) / cB c = upe c.
  Proof.
    pose proof W as [HB HBN HD _ _ _].
    destruct (drop_last c) eqn:Hd.
    - rewrite spe_upe_drop by auto.
      replace (upe c * cB c + cB c - 1) with (upe c * cB c + (cB c - 1)) by lia.
      rewrite Z.div_add_l by lia. rewrite (Z.div_small (cB c - 1)) by lia. lia.
    - unfold upe, spe. rewrite Hd. reflexivity.
  Qed.

  Lemma upe_pos : 1 <= upe c.
  Proof.
    pose proof W as [HB HBN HD _ _ _]. pose proof spe_range. rewrite <- upe_ceil.
    apply Z.div_le_lower_bound; lia.
  Qed.

  (* the batches of an epoch *)
  Lemma epoch_batches_concat e :
    concat (epoch_batches c mi e) = firstn (Z.to_nat (spe c)) (mi e).
  Proof. pose proof W as [HB _ _ _ _ _]. unfold epoch_batches. apply concat_chunk. lia. Qed.

  Lemma epoch_batches_len e : len (concat (epoch_batches c mi e)) = spe c.
  Proof.
    rewrite epoch_batches_concat. unfold len. rewrite firstn_length.
    pose proof (wf_iter c mi W e) as Hl. unfold len in Hl. pose proof spe_range. lia.
  Qed.

  Lemma epoch_batches_count e : Z.of_nat (length (epoch_batches c mi e)) = upe c.
  Proof.
    pose proof W as [HB _ _ _ _ _]. unfold epoch_batches. rewrite chunk_length by lia.
    fold (epoch_batches c mi e). 
    replace (len (firstn (Z.to_nat (spe c)) (mi e))) with (spe c).
    - rewrite Z2Nat.id by lia. apply upe_ceil.
    - rewrite <- epoch_batches_concat. now rewrite epoch_batches_len.
  Qed.

  Lemma epoch_batches_shape e : shape (Z.to_nat (cB c)) (epoch_batches c mi e).
  Proof. pose proof W as [HB _ _ _ _ _]. apply chunk_shape. lia. Qed.

  Lemma epoch_split e :
    mi e = concat (epoch_batches c mi e) ++ skipn (Z.to_nat (spe c)) (mi e).
  Proof. rewrite epoch_batches_concat. symmetry. apply firstn_skipn. Qed.
End Geometry.
