#!/bin/bash
# tools/suite.sh [repo]  — runs the pinned suite on the given tree (default /repo) and reports which of the 301 baseline-passing tests do not pass
R=${1:-/repo}
J=$(mktemp /tmp/junit.XXXX.xml)
(cd $R && /venv/bin/python -m pytest -q -p no:cacheprovider --timeout=900 --continue-on-collection-errors --junitxml=$J > $J.log 2>&1)
tail -1 $J.log
python3 - $J <<'PY'
import json, sys, xml.etree.ElementTree as ET
sp=set(json.load(open('/root/.vp/BASELINE.json'))['stable_pass'])
res={}
for tc in ET.parse(sys.argv[1]).iter('testcase'):
    res[tc.get('classname')+'::'+tc.get('name')]=not any(c.tag in('failure','error','skipped') for c in tc)
bad=[n for n in sp if not res.get(n)]
print(f"baseline tests passing: {len(sp)-len(bad)}/{len(sp)}", bad[:10])
sys.exit(1 if bad else 0)
PY
rc=$?; rm -f $J $J.log; exit $rc
