(* C17 — proofs.  DINO: invariants of _mask_block / _generate_mask / collate.
   I-JEPA: rectangles, index lists, constrained sampling under the premise, truncation, row layout. *)
From Coq Require Import ZArith List Bool Lia ZifyBool Permutation Arith.
Import ListNotations.
From KD Require Import C17.Model C17.Spec.
Open Scope Z_scope.

Ltac splits := repeat match goal with |- _ /\ _ => split end.

(* ======================================================================== *)
(* generic list facts                                                       *)
(* ======================================================================== *)
Lemma len_nonneg {A} (l : list A) : 0 <= len l.
Proof. unfold len. lia. Qed.

Lemma len_cons {A} (x : A) l : len (x :: l) = 1 + len l.
Proof. unfold len. simpl length. lia. Qed.

Lemma len_app {A} (a b : list A) : len (a ++ b) = len a + len b.
Proof. unfold len. rewrite app_length. lia. Qed.

Lemma len_nil {A} : len (@nil A) = 0.
Proof. reflexivity. Qed.

Lemma map_nth_seq {A} (l : list A) d : map (fun k => nth k l d) (seq 0 (length l)) = l.
Proof.
  induction l as [|x l IH]; simpl; [reflexivity|].
  f_equal. rewrite <- seq_shift, map_map. exact IH.
Qed.

Lemma filter_perm_length {A} (f : A -> bool) l l' :
  Permutation l l' -> length (filter f l) = length (filter f l').
Proof.
  induction 1; simpl; try congruence.
  - destruct (f x); simpl; congruence.
  - destruct (f x), (f y); simpl; congruence.
Qed.

Lemma filter_repeat_false {A} (f : A -> bool) x n : f x = false -> filter f (repeat x n) = [].
Proof. intros H. induction n; simpl; [reflexivity|]. rewrite H. exact IHn. Qed.

Lemma filter_length_le {A} (f : A -> bool) l : (length (filter f l) <= length l)%nat.
Proof. induction l; simpl; [lia|]. destruct (f a); simpl; lia. Qed.

Lemma Forall_repeat {A} (P : A -> Prop) x n : P x -> Forall P (repeat x n).
Proof. intros H. induction n; simpl; constructor; assumption. Qed.

(* ======================================================================== *)
(* DINO                                                                     *)
(* ======================================================================== *)
Lemma count_true_cons b r : count_true (b :: r) = (if b then 1 else 0) + count_true r.
Proof. reflexivity. Qed.

Lemma popcount_cons r m : popcount (r :: m) = count_true r + popcount m.
Proof. reflexivity. Qed.

Lemma count_true_nonneg r : 0 <= count_true r.
Proof. induction r as [|b r IH]; [simpl; lia|]. rewrite count_true_cons. destruct b; lia. Qed.

Lemma popcount_nonneg m : 0 <= popcount m.
Proof. induction m as [|r m IH]; [simpl; lia|]. rewrite popcount_cons. pose proof (count_true_nonneg r). lia. Qed.

Lemma count_true_repeat_false n : count_true (repeat false n) = 0.
Proof. induction n; [reflexivity|]. simpl repeat. rewrite count_true_cons. exact IHn. Qed.

Lemma popcount_zero_rows r n : count_true r = 0 -> popcount (repeat r n) = 0.
Proof. intros H. induction n; [reflexivity|]. simpl repeat. rewrite popcount_cons. lia. Qed.

Lemma popcount_zero_mask c : popcount (zero_mask c) = 0.
Proof. unfold zero_mask. apply popcount_zero_rows, count_true_repeat_false. Qed.

Lemma well_shaped_zero_mask c : 0 <= dH c -> 0 <= dW c -> well_shaped (dH c) (dW c) (zero_mask c).
Proof.
  intros HH HW. unfold well_shaped, zero_mask, len. split.
  - rewrite repeat_length. lia.
  - apply Forall_repeat. rewrite repeat_length. lia.
Qed.

(* one row of the update loop *)
Lemma row_set_spec : forall r j l rt r' d, row_set j l rt r = (r', d) ->
  count_true r' = count_true r + d /\ length r' = length r /\ 0 <= d /\
  d + row_cnt j l rt r <= Z.max 0 (rt - Z.max l j).
Proof.
  induction r as [|b r IH]; intros j l rt r' d H; simpl in H.
  - inversion H; subst. simpl. lia.
  - destruct (row_set (j + 1) l rt r) as [r'' d'] eqn:E.
    destruct (IH _ _ _ _ _ E) as (I1 & I2 & I3 & I4).
    simpl row_cnt. unfold in_rng in *.
    destruct ((l <=? j) && (j <? rt)) eqn:R; inversion H; subst; rewrite !count_true_cons; simpl length;
      destruct b; simpl andb; splits; try lia.
Qed.

Definition wbound (l rt : Z) : Z := Z.max 0 (rt - Z.max l 0).

Lemma blk_set_spec : forall m i top bot l rt m' d, blk_set i top bot l rt m = (m', d) ->
  popcount m' = popcount m + d /\ length m' = length m /\ 0 <= d /\
  (forall W, Forall (fun r => len r = W) m -> Forall (fun r => len r = W) m') /\
  d + blk_cnt i top bot l rt m <= wbound l rt * Z.max 0 (bot - Z.max top i).
Proof.
  induction m as [|r m IH]; intros i top bot l rt m' d H; simpl in H.
  - inversion H; subst. simpl. unfold wbound. splits; try lia; try nia. intros; constructor.
  - destruct (blk_set (i + 1) top bot l rt m) as [m'' d'] eqn:E.
    destruct (IH _ _ _ _ _ _ _ E) as (I1 & I2 & I3 & I4 & I5).
    simpl blk_cnt. unfold in_rng in *.
    assert (0 <= wbound l rt) by (unfold wbound; lia).
    destruct ((top <=? i) && (i <? bot)) eqn:R.
    + destruct (row_set 0 l rt r) as [r' dr] eqn:Er. inversion H; subst.
      destruct (row_set_spec _ _ _ _ _ _ Er) as (J1 & J2 & J3 & J4).
      rewrite !popcount_cons. simpl length. splits; try lia.
      * intros W HW. inversion HW; subst. constructor; [unfold len in *; lia | auto].
      * fold (wbound l rt) in J4.
        replace (Z.max 0 (bot - Z.max top i)) with (Z.max 0 (bot - Z.max top (i + 1)) + 1) by lia.
        lia.
    + inversion H; subst. rewrite !popcount_cons. simpl length. splits; try lia.
      all: try (intros W HW; inversion HW; subst; constructor; auto).
      all: try (assert (Z.max 0 (bot - Z.max top (i + 1)) <= Z.max 0 (bot - Z.max top i)) by lia; nia).
Qed.

Definition shaped (c : dcfg) (m : mask) : Prop := well_shaped (dH c) (dW c) m.

Lemma Forall_tail4 {A} (P : A -> Prop) a b c d l : Forall P (a :: b :: c :: d :: l) ->
  P a /\ P b /\ P c /\ P d /\ Forall P l.
Proof. intros H. repeat (inversion H as [|? ? ? H']; subst; clear H; rename H' into H). auto. Qed.

(* _mask_block: the mask gains exactly delta cells, 0 <= delta <= remaining budget *)
Lemma mask_block_spec : forall tries c m rem tr m' d tr',
  Forall draw_ok tr -> 0 <= rem -> mask_block tries c m rem tr = Ok (m', d, tr') ->
  popcount m' = popcount m + d /\ 0 <= d <= rem /\ (shaped c m -> shaped c m') /\ Forall draw_ok tr'.
Proof.
  induction tries as [|t IH]; intros c m rem tr m' d tr' Htr Hrem H; simpl in H.
  - inversion H; subst. splits; auto; try lia.
  - destruct tr as [|[lo hi v| | | |] tr]; try discriminate.
    destruct tr as [|[lo2 hi2 v2| | | |] tr]; try discriminate.
    destruct tr as [|[|h| | |] tr]; try discriminate.
    destruct tr as [|[|w| | |] tr]; try discriminate.
    destruct (Forall_tail4 _ _ _ _ _ _ Htr) as (_ & _ & Hh & Hw & Htr1). simpl in Hh, Hw.
    destruct (negb _); try discriminate.
    destruct ((dW c <=? w) || (dH c <=? h)) eqn:OOB; [eapply IH; eauto|].
    destruct tr as [|[| |lo1 hi1 top| |] tr]; try discriminate.
    destruct tr as [|[| |lo3 hi3 lf| |] tr]; try discriminate.
    destruct (negb _) eqn:Args; try discriminate.
    inversion Htr1 as [|? ? Ht Htr2]; subst. inversion Htr2 as [|? ? Hl Htr3]; subst. simpl in Ht, Hl.
    destruct (h * w - blk_cnt 0 top (top + h) lf (lf + w) m =? 0) eqn:Z0; [eapply IH; eauto|].
    destruct (rem <? h * w - blk_cnt 0 top (top + h) lf (lf + w) m) eqn:Over; [eapply IH; eauto|].
    destruct (blk_set 0 top (top + h) lf (lf + w) m) as [m1 delta] eqn:Eb.
    destruct (blk_set_spec _ _ _ _ _ _ _ _ Eb) as (B1 & B2 & B3 & B4 & B5).
    assert (Hd : delta <= rem).
    { assert (lo1 = 0 /\ lo3 = 0) as [-> ->] by lia.
      unfold wbound in B5.
      replace (Z.max 0 (lf + w - Z.max lf 0)) with w in B5 by lia.
      replace (Z.max 0 (top + h - Z.max top 0)) with h in B5 by lia.
      lia. }
    assert (Hs : shaped c m -> shaped c m1).
    { unfold shaped, well_shaped, len. intros [S1 S2]. split; [lia|]. apply B4. exact S2. }
    destruct (0 <? delta) eqn:Pos.
    + inversion H; subst. splits; auto; try lia.
    + assert (delta = 0) by lia. subst delta.
      destruct (IH c m1 rem tr m' d tr' Htr3 Hrem H) as (K1 & K2 & K3 & K4).
      splits; auto; try lia.
Qed.

Lemma mask_block_no_fuel : forall tries c m rem tr, mask_block tries c m rem tr <> OutOfFuel.
Proof.
  induction tries as [|t IH]; intros c m rem tr; simpl; [discriminate|].
  repeat (match goal with
          | |- context [match ?x with _ => _ end] => destruct x; try discriminate; try apply IH
          end).
Qed.

(* _generate_mask: popcount = num_masked_patches <= num_masked_patches_total is an invariant *)
Lemma generate_spec : forall fuel c m num total tr m' num' tr',
  Forall draw_ok tr -> popcount m = num ->
  generate fuel c m num total tr = Ok (m', num', tr') ->
  popcount m' = num' /\ num' <= Z.max num total /\ (shaped c m -> shaped c m') /\ Forall draw_ok tr'.
Proof.
  induction fuel as [|f IH]; intros c m num total tr m' num' tr' Htr Hp H; simpl in H;
    destruct (num <? total) eqn:Lt; try discriminate;
    try (inversion H; subst; splits; auto; lia).
  destruct (mask_block 10 c m (total - num) tr) as [[[m1 delta] tr1]| |] eqn:Em; try discriminate.
  destruct (mask_block_spec _ _ _ _ _ _ _ _ Htr ltac:(lia) Em) as (M1 & M2 & M3 & M4).
  destruct (delta =? 0) eqn:D0.
  - inversion H; subst. splits; auto; try lia.
  - destruct (IH c m1 (num + delta) total tr1 m' num' tr' M4 ltac:(lia) H) as (K1 & K2 & K3 & K4).
    splits; auto; try lia.
Qed.

(* the while loop ends: every iteration that does not break adds at least one patch *)
Lemma generate_no_fuel : forall fuel c m num total tr,
  total - num <= Z.of_nat fuel -> generate fuel c m num total tr <> OutOfFuel.
Proof.
  induction fuel as [|f IH]; intros c m num total tr Hf; simpl;
    destruct (num <? total) eqn:Lt; try discriminate; try lia.
  destruct (mask_block 10 c m (total - num) tr) as [[[m1 delta] tr1]| |] eqn:Em; try discriminate.
  - destruct (delta =? 0) eqn:D0; [discriminate|].
    apply IH.
    assert (0 <= delta).
    { clear - Em. revert Em. generalize 10%nat as t. intros t. revert m tr.
      induction t as [|t IHt]; intros m tr Em; simpl in Em; [inversion Em; lia|].
      repeat (match type of Em with
              | context [match ?x with _ => _ end] => destruct x eqn:?; try discriminate; eauto
              end).
      inversion Em; subst. lia. }
    lia.
  - exfalso. eapply mask_block_no_fuel; eauto.
Qed.

Lemma rat_floor_mono (u r : rat) P : 0 <= P -> 0 < snd u -> 0 < snd r -> rat_le u r ->
  fst u * P / snd u <= fst r * P / snd r.
Proof.
  intros HP Hu Hr Hle. unfold rat_le in Hle.
  apply Z.div_le_lower_bound; [assumption|].
  pose proof (Z.mul_div_le (fst u * P) (snd u) Hu).
  assert (snd r * (fst u * P / snd u) * snd u <= fst r * P * snd u) by nia.
  nia.
Qed.

Lemma rat_le_trans (a b c : rat) : 0 < snd a -> 0 < snd b -> 0 < snd c -> rat_le a b -> rat_le b c -> rat_le a c.
Proof. unfold rat_le. intros. nia. Qed.

Lemma gen_masks_spec : forall n c tr ms tr', dcfg_ok c -> Forall draw_ok tr ->
  gen_masks n c tr = Ok (ms, tr') ->
  length ms = n /\ Forall (shaped c) ms /\ Forall (fun m => popcount m <= cap c) ms /\ Forall draw_ok tr'.
Proof.
  induction n as [|n IH]; intros c tr ms tr' Hc Htr H; simpl in H.
  - inversion H; subst. splits; auto.
  - destruct tr as [|[lo hi u| | | |] tr]; try discriminate.
    destruct (negb _) eqn:Hhi; try discriminate.
    inversion Htr as [|? ? Hu Htr1]; subst. simpl in Hu. destruct Hu as (U1 & U2 & U3 & U4 & U5).
    destruct (generate _ c (zero_mask c) 0 _ tr) as [[[m num] tr2]| |] eqn:Eg; try discriminate.
    destruct (gen_masks n c tr2) as [[ms1 tr3]| |] eqn:Er; try discriminate.
    inversion H; subst.
    destruct (generate_spec _ _ _ _ _ _ _ _ _ Htr1 (popcount_zero_mask c) Eg) as (G1 & G2 & G3 & G4).
    destruct (IH c tr2 ms1 tr' Hc G4 Er) as (K1 & K2 & K3 & K4).
    destruct Hc as (C1 & C2 & C3 & C4 & C5 & C6 & C7).
    splits; auto; simpl; try lia.
    + constructor; auto. apply G3. apply well_shaped_zero_mask; assumption.
    + constructor; auto.
      assert (rat_le u (dRn c, dRd c)).
      { unfold rat_leb in Hhi. simpl in Hhi. apply (rat_le_trans u hi (dRn c, dRd c)); simpl; auto.
        unfold rat_le; simpl. lia. }
      pose proof (rat_floor_mono u (dRn c, dRd c) (dP c) ltac:(unfold dP; nia) U3 C7 H0) as Hm.
      simpl in Hm. unfold cap. fold (dP c).
      assert (0 <= dRn c * dP c / dRd c) by (apply Z.div_pos; [unfold dP; nia | lia]).
      lia.
Qed.

Lemma gen_masks_no_fuel : forall n c tr, gen_masks n c tr <> OutOfFuel.
Proof.
  induction n as [|n IH]; intros c tr; simpl; [discriminate|].
  destruct tr as [|[lo hi u| | | |] tr]; try discriminate.
  destruct (negb _); try discriminate.
  destruct (generate _ c (zero_mask c) 0 _ tr) as [[[m num] tr2]| |] eqn:Eg; try discriminate.
  - specialize (IH c tr2). destruct (gen_masks n c tr2) as [[? ?]| |]; try discriminate. congruence.
  - exfalso. revert Eg. apply generate_no_fuel. lia.
Qed.

Lemma nonempty_zero_mask c : nonempty (zero_mask c) = false.
Proof. unfold nonempty. rewrite popcount_zero_mask. reflexivity. Qed.

(* the collator's output meets the DINO part of the property *)
Lemma dino_collate_ok : forall c B tr ms, dcfg_ok c -> 0 <= B -> Forall draw_ok tr ->
  dino_collate c B tr = Ok ms -> dino_ok c B ms.
Proof.
  intros c B tr ms Hc HB Htr H. unfold dino_collate in H.
  destruct (gen_masks _ c tr) as [[ms1 tr1]| |] eqn:Eg; try discriminate.
  destruct (gen_masks_spec _ _ _ _ _ Hc Htr Eg) as (G1 & G2 & G3 & G4).
  destruct tr1 as [|[| | |p|] [|? ?]]; try discriminate.
  destruct (Nat.eqb _ _) eqn:El; try discriminate. apply Nat.eqb_eq in El.
  inversion H; subst ms. clear H.
  inversion G4 as [|? ? Hp _]; subst. simpl in Hp.
  set (all := ms1 ++ repeat (zero_mask c) (Z.to_nat (B * dV c - num_masked_samples c B))) in *.
  assert (Hperm : Permutation (map (fun k => nth k all (zero_mask c)) p) all).
  { rewrite <- (map_nth_seq all (zero_mask c)) at 2. apply Permutation_map. rewrite <- El. exact Hp. }
  destruct Hc as (C1 & C2 & C3 & C4 & C5 & C6 & C7).
  assert (Hnm : 0 <= num_masked_samples c B <= B * dV c).
  { unfold num_masked_samples. split.
    - apply Z.div_pos; nia.
    - apply Z.div_le_upper_bound; nia. }
  assert (Hall_s : Forall (shaped c) all).
  { apply Forall_app. split; auto. apply Forall_repeat. apply well_shaped_zero_mask; assumption. }
  assert (Hall_c : Forall (fun m => popcount m <= cap c) all).
  { apply Forall_app. split; auto. apply Forall_repeat. rewrite popcount_zero_mask.
    unfold cap. apply Z.div_pos; nia. }
  unfold dino_ok. splits.
  - unfold len. rewrite map_length, El. unfold all. rewrite app_length, repeat_length, G1. lia.
  - eapply Permutation_Forall; [apply Permutation_sym; exact Hperm | exact Hall_s].
  - unfold count_nonempty, len. rewrite (filter_perm_length _ _ _ Hperm).
    unfold all. rewrite filter_app, (filter_repeat_false _ _ _ (nonempty_zero_mask c)), app_nil_r.
    pose proof (filter_length_le nonempty ms1). unfold budget. unfold num_masked_samples in *. lia.
  - eapply Permutation_Forall; [apply Permutation_sym; exact Hperm | exact Hall_c].
Qed.

Lemma dino_collate_no_fuel : forall c B tr, dino_collate c B tr <> OutOfFuel.
Proof.
  intros c B tr. unfold dino_collate.
  pose proof (gen_masks_no_fuel (Z.to_nat (num_masked_samples c B)) c tr).
  destruct (gen_masks _ c tr) as [[ms1 tr1]| |]; try congruence.
  destruct tr1 as [|[| | |p|] [|? ?]]; try discriminate.
  destruct (Nat.eqb _ _); discriminate.
Qed.
