(* C03 — proofs.  All statements are for every class layout / size / parameter /
   draw sequence; induction over lists and fuel, no bounded sweeps. *)
From Coq Require Import ZArith List Bool Lia ZifyBool Permutation Sorted Arith Floats.
Import ListNotations.
From KD Require Import C03.Model C03.Spec.
Open Scope Z_scope.

(* ------------------------------------------------------------------ *)
(* zrange                                                              *)
(* ------------------------------------------------------------------ *)
Lemma zlen_nonneg {A} (l : list A) : 0 <= zlen l.
Proof. unfold zlen. lia. Qed.

Lemma zlen_app {A} (a b : list A) : zlen (a ++ b) = zlen a + zlen b.
Proof. unfold zlen. rewrite app_length. lia. Qed.

Lemma zlen_cons {A} (x : A) l : zlen (x :: l) = 1 + zlen l.
Proof. unfold zlen. simpl length. lia. Qed.

Lemma zrange_nil a b : b <= a -> zrange a b = [].
Proof. intros. unfold zrange. replace (Z.to_nat (b - a)) with 0%nat by lia. reflexivity. Qed.

Lemma zrange_cons a b : a < b -> zrange a b = a :: zrange (a + 1) b.
Proof.
  intros. unfold zrange.
  replace (Z.to_nat (b - a)) with (S (Z.to_nat (b - (a + 1)))) by lia.
  simpl. f_equal. lia.
  rewrite <- seq_shift, map_map. apply map_ext. intros. lia.
Qed.

Lemma In_zrange x a b : In x (zrange a b) <-> a <= x < b.
Proof.
  unfold zrange. rewrite in_map_iff. split.
  - intros (k & <- & Hk). apply in_seq in Hk. lia.
  - intros. exists (Z.to_nat (x - a)). split. lia. apply in_seq. lia.
Qed.

Lemma zrange_length a b : length (zrange a b) = Z.to_nat (b - a).
Proof. unfold zrange. now rewrite map_length, seq_length. Qed.

Lemma zlen_zrange a b : zlen (zrange a b) = Z.max 0 (b - a).
Proof. unfold zlen. rewrite zrange_length. lia. Qed.

Lemma zrange_app a m b : a <= m <= b -> zrange a m ++ zrange m b = zrange a b.
Proof.
  remember (Z.to_nat (m - a)) as k. revert a Heqk.
  induction k; intros.
  - assert (m = a) by lia. subst. now rewrite zrange_nil by lia.
  - rewrite (zrange_cons a m), (zrange_cons a b) by lia. simpl. f_equal. apply IHk; lia.
Qed.

Lemma zrange_snoc a b : a <= b -> zrange a (b + 1) = zrange a b ++ [b].
Proof.
  intros. rewrite <- (zrange_app a b (b + 1)) by lia. f_equal.
  rewrite zrange_cons by lia. now rewrite zrange_nil by lia.
Qed.

Lemma zrange_nth a b k : (k < length (zrange a b))%nat -> nth k (zrange a b) 0 = a + Z.of_nat k.
Proof.
  intros. unfold zrange in *. rewrite map_length, seq_length in H.
  rewrite (nth_indep _ 0 (a + Z.of_nat 0)) by (now rewrite map_length, seq_length).
  rewrite (map_nth (fun k => a + Z.of_nat k)). now rewrite seq_nth.
Qed.

Lemma zrange_sorted a b : StronglySorted Z.lt (zrange a b).
Proof.
  remember (Z.to_nat (b - a)) as k. revert a Heqk.
  induction k; intros.
  - rewrite zrange_nil by lia. constructor.
  - rewrite zrange_cons by lia. constructor. apply IHk; lia.
    apply Forall_forall. intros x Hx. apply In_zrange in Hx. lia.
Qed.

Lemma zrange_nodup a b : NoDup (zrange a b).
Proof.
  unfold zrange. apply FinFun.Injective_map_NoDup. intros x y. lia. apply seq_NoDup.
Qed.

(* ------------------------------------------------------------------ *)
(* counting                                                            *)
(* ------------------------------------------------------------------ *)
Definition cntf (f : Z -> bool) (l : list Z) : Z := zlen (filter f l).

Lemma cntf_nil f : cntf f [] = 0.
Proof. reflexivity. Qed.

Lemma cntf_cons f x l : cntf f (x :: l) = (if f x then 1 else 0) + cntf f l.
Proof. unfold cntf. simpl. destruct (f x). apply zlen_cons. lia. Qed.

Lemma cntf_app f a b : cntf f (a ++ b) = cntf f a + cntf f b.
Proof. unfold cntf. now rewrite filter_app, zlen_app. Qed.

Lemma cntf_nonneg f l : 0 <= cntf f l.
Proof. apply zlen_nonneg. Qed.

Lemma cntf_le_len f l : cntf f l <= zlen l.
Proof. induction l. unfold cntf, zlen; simpl; lia. rewrite cntf_cons, zlen_cons. destruct (f a); lia. Qed.

Lemma cntf_all f l : (forall x, In x l -> f x = true) -> cntf f l = zlen l.
Proof.
  induction l; intros. reflexivity.
  rewrite cntf_cons, zlen_cons, H by (now left). rewrite IHl. lia. intros. apply H. now right.
Qed.

Lemma cntf_none f l : (forall x, In x l -> f x = false) -> cntf f l = 0.
Proof.
  induction l; intros. reflexivity.
  rewrite cntf_cons, H by (now left). rewrite IHl. lia. intros. apply H. now right.
Qed.

Lemma cntf_ext_in f g l : (forall x, In x l -> f x = g x) -> cntf f l = cntf g l.
Proof. intros. unfold cntf. f_equal. now apply filter_ext_in. Qed.

Lemma cntf_concat_repeat f l k : cntf f (concat (repeat l k)) = Z.of_nat k * cntf f l.
Proof. induction k. reflexivity. simpl repeat. simpl concat. rewrite cntf_app, IHk. lia. Qed.

Lemma cntf_firstn_le f k l : cntf f (firstn k l) <= cntf f l.
Proof.
  revert k. induction l; intros; destruct k; simpl; try (rewrite ?cntf_nil; lia).
  - rewrite cntf_nil. apply cntf_nonneg.
  - rewrite !cntf_cons. specialize (IHl k). lia.
Qed.

Lemma cntf_pos_In f l : 0 < cntf f l <-> exists x, In x l /\ f x = true.
Proof.
  split.
  - induction l. rewrite cntf_nil. lia.
    rewrite cntf_cons. destruct (f a) eqn:E; intros.
    + exists a. simpl. auto.
    + destruct IHl as (x & ? & ?). lia. exists x. simpl. auto.
  - intros (x & Hin & Hf). induction l. destruct Hin.
    rewrite cntf_cons. pose proof (cntf_nonneg f l). destruct Hin.
    + subst. rewrite Hf. lia.
    + specialize (IHl H0). destruct (f a); lia.
Qed.

Lemma occ_cntf i out : occ i out = cntf (Z.eqb i) out.
Proof. reflexivity. Qed.

Lemma class_occ_cntf classes c out : class_occ classes c out = cntf (fun i => cls classes i =? c) out.
Proof. reflexivity. Qed.

Lemma count_of_cntf c l : count_of c l = cntf (Z.eqb c) l.
Proof. reflexivity. Qed.

Lemma occ_nodup i l : NoDup l -> occ i l = if in_dec Z.eq_dec i l then 1 else 0.
Proof.
  rewrite occ_cntf. induction 1. now rewrite cntf_nil.
  rewrite cntf_cons, IHNoDup. destruct (Z.eqb_spec i x).
  - subst. destruct (in_dec Z.eq_dec x l). contradiction.
    destruct (in_dec Z.eq_dec x (x :: l)). lia. exfalso. apply n0. now left.
  - destruct (in_dec Z.eq_dec i l); destruct (in_dec Z.eq_dec i (x :: l)); try lia.
    + exfalso. apply n0. now right.
    + destruct i0. congruence. contradiction.
Qed.

(* ------------------------------------------------------------------ *)
(* sel_from / positions                                                *)
(* ------------------------------------------------------------------ *)
Lemma sel_from_filter f l : forall i,
  sel_from i f l = filter (fun j => f (nth (Z.to_nat (j - i)) l (-1))) (zrange i (i + zlen l)).
Proof.
  induction l; intros.
  - simpl. rewrite zrange_nil. reflexivity. unfold zlen. simpl. lia.
  - rewrite zlen_cons, zrange_cons by (pose proof (zlen_nonneg l); lia).
    simpl filter. replace (Z.to_nat (i - i)) with 0%nat by lia. simpl nth.
    assert (E : sel_from (i + 1) f l =
                filter (fun j => f (nth (Z.to_nat (j - i)) (a :: l) (-1))) (zrange (i + 1) (i + (1 + zlen l)))).
    { rewrite IHl. replace (i + 1 + zlen l) with (i + (1 + zlen l)) by lia.
      apply filter_ext_in. intros j Hj. apply In_zrange in Hj.
      replace (Z.to_nat (j - i)) with (S (Z.to_nat (j - (i + 1)))) by lia. reflexivity. }
    simpl. rewrite E. reflexivity.
Qed.

Lemma sel_from_spec f classes :
  sel_from 0 f classes = filter (fun i => f (cls classes i)) (all_ids classes).
Proof.
  rewrite sel_from_filter. unfold all_ids, cls. simpl.
  apply filter_ext. intros. now rewrite Z.sub_0_r.
Qed.

Lemma positions_filter c classes :
  positions c classes = filter (fun i => cls classes i =? c) (all_ids classes).
Proof.
  unfold positions. rewrite sel_from_spec. apply filter_ext. intros. apply Z.eqb_sym.
Qed.

Lemma In_positions x c classes :
  In x (positions c classes) <-> 0 <= x < zlen classes /\ cls classes x = c.
Proof.
  rewrite positions_filter, filter_In. unfold all_ids. rewrite In_zrange, Z.eqb_eq. tauto.
Qed.

Lemma sel_from_len f l : forall i, zlen (sel_from i f l) = cntf f l.
Proof.
  induction l; intros. reflexivity.
  simpl. rewrite cntf_cons. destruct (f a). rewrite zlen_cons, IHl. lia. rewrite IHl. lia.
Qed.

Lemma zlen_positions c classes : zlen (positions c classes) = count_of c classes.
Proof. unfold positions. now rewrite sel_from_len. Qed.

Lemma length_positions c classes : length (positions c classes) = Z.to_nat (count_of c classes).
Proof. rewrite <- zlen_positions. unfold zlen. lia. Qed.

Lemma filter_sorted {A} (R : A -> A -> Prop) f l : StronglySorted R l -> StronglySorted R (filter f l).
Proof.
  induction 1. constructor. simpl. destruct (f a); auto. constructor; auto.
  apply Forall_forall. intros x Hx. apply filter_In in Hx.
  rewrite Forall_forall in H0. apply H0. tauto.
Qed.

Lemma positions_sorted c classes : StronglySorted Z.lt (positions c classes).
Proof. rewrite positions_filter. apply filter_sorted, zrange_sorted. Qed.

Lemma positions_nodup c classes : NoDup (positions c classes).
Proof. rewrite positions_filter. apply NoDup_filter, zrange_nodup. Qed.

Lemma count_of_nonneg c l : 0 <= count_of c l.
Proof. apply zlen_nonneg. Qed.

(* a sample's own class is present *)
Lemma count_of_cls_pos classes i : 0 <= i < zlen classes -> 0 < count_of (cls classes i) classes.
Proof.
  intros. rewrite <- zlen_positions.
  assert (In i (positions (cls classes i) classes)) by (apply In_positions; auto).
  destruct (positions (cls classes i) classes). destruct H0. rewrite zlen_cons. pose proof (zlen_nonneg l). lia.
Qed.

Lemma cls_in classes i : 0 <= i < zlen classes -> In (cls classes i) classes.
Proof. intros. unfold cls. apply nth_In. unfold zlen in H. lia. Qed.

(* occurrences of sample i / of class c in the block of class c' *)
Lemma occ_positions i c classes :
  occ i (positions c classes) = if (0 <=? i) && (i <? zlen classes) && (cls classes i =? c) then 1 else 0.
Proof.
  rewrite occ_nodup by apply positions_nodup.
  destruct (in_dec Z.eq_dec i (positions c classes)) as [H|H]; rewrite In_positions in H;
    destruct (Z.leb_spec 0 i), (Z.ltb_spec i (zlen classes)), (Z.eqb_spec (cls classes i) c); simpl; try lia; tauto.
Qed.

Lemma class_occ_positions c c' classes :
  class_occ classes c (positions c' classes) = if c =? c' then count_of c classes else 0.
Proof.
  rewrite class_occ_cntf. destruct (Z.eqb_spec c c').
  - subst. rewrite cntf_all. apply zlen_positions.
    intros x Hx. apply In_positions in Hx. lia.
  - apply cntf_none. intros x Hx. apply In_positions in Hx. lia.
Qed.

Lemma class_occ_all_ids c classes : class_occ classes c (all_ids classes) = count_of c classes.
Proof.
  rewrite <- zlen_positions, positions_filter. reflexivity.
Qed.

(* ------------------------------------------------------------------ *)
(* ClassFilterWrapper                                                  *)
(* ------------------------------------------------------------------ *)
Lemma class_filter_spec_l valid cs classes :
  class_filter valid cs classes
  = spec_class_filter classes (fun c => Bool.eqb (existsb (Z.eqb c) cs) valid).
Proof. unfold class_filter, spec_class_filter. apply sel_from_spec. Qed.

Lemma class_filter_valid_l cs classes i :
  In i (class_filter true cs classes) <-> 0 <= i < zlen classes /\ In (cls classes i) cs.
Proof.
  rewrite class_filter_spec_l. unfold spec_class_filter, all_ids. rewrite filter_In, In_zrange.
  rewrite eqb_true_iff, existsb_exists. split.
  - intros (? & x & ? & E). apply Z.eqb_eq in E. subst. tauto.
  - intros (? & ?). split; auto. exists (cls classes i). split; auto. apply Z.eqb_refl.
Qed.

Lemma class_filter_invalid_l cs classes i :
  In i (class_filter false cs classes) <-> 0 <= i < zlen classes /\ ~ In (cls classes i) cs.
Proof.
  rewrite class_filter_spec_l. unfold spec_class_filter, all_ids. rewrite filter_In, In_zrange.
  destruct (existsb (Z.eqb (cls classes i)) cs) eqn:E; simpl.
  - apply existsb_exists in E. destruct E as (x & ? & E). apply Z.eqb_eq in E. subst.
    split. intros (? & ?); discriminate. tauto.
  - split; [|tauto]. intros (? & _). split; auto. intro Hin.
    assert (existsb (Z.eqb (cls classes i)) cs = true)
      by (apply existsb_exists; eexists; split; eauto; apply Z.eqb_refl).
    congruence.
Qed.

Lemma class_filter_sorted_l valid cs classes : StronglySorted Z.lt (class_filter valid cs classes).
Proof. rewrite class_filter_spec_l. apply filter_sorted, zrange_sorted. Qed.

(* ------------------------------------------------------------------ *)
(* ranges: PercentFilterWrapper, SubsetWrapper                         *)
(* ------------------------------------------------------------------ *)
(* what the theorems need of the percent -> index map on a dataset of size n
   (checked for the binary64 instance fcut on every generated case, not proved) *)
Definition cut_contract (cut : cut_t) (n : Z) : Prop :=
  (forall c, cut c 0%float n = 0) /\ (forall c, cut c 1%float n = n) /\
  (forall c p, pct_ok p = true -> 0 <= cut c p n <= n) /\
  (forall p q, pct_ok p = true -> pct_ok q = true -> PrimFloat.leb p q = true -> cut false p n <= cut false q n).

Lemma pct_ok_0 : pct_ok 0%float = true. Proof. reflexivity. Qed.
Lemma pct_ok_1 : pct_ok 1%float = true. Proof. reflexivity. Qed.

Lemma block_contiguous_l a b :
  zlen (zrange a b) = Z.max 0 (b - a) /\
  forall k, (k < length (zrange a b))%nat -> nth k (zrange a b) 0 = a + Z.of_nat k.
Proof. split. apply zlen_zrange. apply zrange_nth. Qed.

Lemma three_blocks a b n : 0 <= a <= b -> b <= n -> zrange 0 a ++ zrange a b ++ zrange b n = zrange 0 n.
Proof. intros. rewrite (zrange_app a b n), (zrange_app 0 a n) by lia. reflexivity. Qed.

Lemma percent_filter_block cut n f t cf ct out :
  percent_filter_g cut n f t cf ct = Some out ->
  out = zrange (cut cf (odflt f 0%float) n) (cut ct (odflt t 1%float) n).
Proof. unfold percent_filter_g. destruct (_ && _); congruence. Qed.

Lemma subset_range_block n s e out :
  subset_range n s e = Some out ->
  out = zrange (odflt s 0) (Z.min (odflt e n) n) /\ odflt s 0 <= Z.min (odflt e n) n.
Proof.
  unfold subset_range. destruct (negb _). discriminate.
  destruct (Z.leb_spec (odflt s 0) (Z.min (odflt e n) n)); intros E; inversion E. auto.
Qed.

Lemma subset_percent_block cut n s e out :
  subset_percent_g cut n s e = Some out ->
  out = zrange (cut false (odflt s 0%float) n) (cut false (odflt e 1%float) n).
Proof.
  unfold subset_percent_g. destruct (negb (is_some s || is_some e)). discriminate.
  destruct (negb _). discriminate. destruct (PrimFloat.leb _ _); congruence.
Qed.

Lemma percent_filter_partition cut n p q c1 c2 :
  cut_contract cut n -> pct_ok p = true -> pct_ok q = true -> cut c1 p n <= cut c2 q n ->
  exists A B D,
    percent_filter_g cut n None (Some p) false c1 = Some A /\
    percent_filter_g cut n (Some p) (Some q) c1 c2 = Some B /\
    percent_filter_g cut n (Some q) None c2 false = Some D /\
    A ++ B ++ D = zrange 0 n.
Proof.
  intros (H0 & H1 & Hb & _) Hp Hq Hle. unfold percent_filter_g. simpl odflt.
  rewrite Hp, Hq, pct_ok_0, pct_ok_1. simpl. do 3 eexists. repeat split.
  rewrite H0, H1. apply three_blocks. pose proof (Hb c1 p Hp). lia. apply Hb; auto.
Qed.

Lemma percent_filter_partition2 cut n p c :
  cut_contract cut n -> pct_ok p = true ->
  exists A D,
    percent_filter_g cut n None (Some p) false c = Some A /\
    percent_filter_g cut n (Some p) None c false = Some D /\
    A ++ D = zrange 0 n.
Proof.
  intros (H0 & H1 & Hb & _) Hp. unfold percent_filter_g. simpl odflt.
  rewrite Hp, pct_ok_0, pct_ok_1. simpl. do 2 eexists. repeat split.
  rewrite H0, H1. apply zrange_app. apply Hb; auto.
Qed.

Lemma subset_range_partition n a b :
  0 <= a <= b -> a <= n ->
  exists A B D,
    subset_range n None (Some a) = Some A /\
    subset_range n (Some a) (Some b) = Some B /\
    subset_range n (Some (Z.min b n)) None = Some D /\
    A ++ B ++ D = zrange 0 n.
Proof.
  intros. unfold subset_range. simpl.
  destruct (Z.leb_spec 0 (Z.min a n)); [|lia].
  destruct (Z.leb_spec a (Z.min b n)); [|lia].
  destruct (Z.leb_spec (Z.min b n) (Z.min n n)); [|lia].
  do 3 eexists. repeat split.
  replace (Z.min a n) with a by lia. replace (Z.min n n) with n by lia.
  apply three_blocks; lia.
Qed.

Lemma subset_range_partition2 n c :
  0 <= c <= n ->
  exists A D,
    subset_range n None (Some c) = Some A /\ subset_range n (Some c) None = Some D /\ A ++ D = zrange 0 n.
Proof.
  intros. unfold subset_range. simpl.
  destruct (Z.leb_spec 0 (Z.min c n)); [|lia].
  destruct (Z.leb_spec c (Z.min n n)); [|lia].
  do 2 eexists. repeat split.
  replace (Z.min c n) with c by lia. replace (Z.min n n) with n by lia. apply zrange_app. lia.
Qed.

Lemma leb_0 p : pct_ok p = true -> PrimFloat.leb 0 p = true.
Proof. unfold pct_ok. intros H. apply andb_prop in H. tauto. Qed.
Lemma leb_1 p : pct_ok p = true -> PrimFloat.leb p 1 = true.
Proof. unfold pct_ok. intros H. apply andb_prop in H. tauto. Qed.

Lemma subset_percent_partition cut n p q :
  cut_contract cut n -> pct_ok p = true -> pct_ok q = true -> PrimFloat.leb p q = true ->
  exists A B D,
    subset_percent_g cut n None (Some p) = Some A /\
    subset_percent_g cut n (Some p) (Some q) = Some B /\
    subset_percent_g cut n (Some q) None = Some D /\
    A ++ B ++ D = zrange 0 n.
Proof.
  intros (H0 & H1 & Hb & Hm) Hp Hq Hle. unfold subset_percent_g. cbn [odflt is_some orb negb].
  rewrite Hp, Hq, pct_ok_0, pct_ok_1, Hle, (leb_0 p Hp), (leb_1 q Hq). cbn [andb negb].
  do 3 eexists. repeat split. rewrite H0, H1. apply three_blocks.
  pose proof (Hb false p Hp). pose proof (Hm p q Hp Hq Hle). lia. apply Hb; auto.
Qed.

(* ------------------------------------------------------------------ *)
(* ShuffleWrapper                                                      *)
(* ------------------------------------------------------------------ *)
Lemma shuffle_perm_l classes draw :
  Permutation draw (zrange 0 (zlen classes)) -> Permutation (shuffle (zlen classes) draw) (all_ids classes).
Proof. auto. Qed.

(* ------------------------------------------------------------------ *)
(* RepeatWrapper                                                       *)
(* ------------------------------------------------------------------ *)
Ltac Zify.zify_post_hook ::= Z.to_euclidean_division_equations.

Lemma zlen_concat_repeat {A} (l : list A) k : zlen (concat (repeat l k)) = Z.of_nat k * zlen l.
Proof. induction k. reflexivity. simpl repeat. simpl concat. rewrite zlen_app, IHk, Nat2Z.inj_succ. ring. Qed.

Lemma repeat_reps_l classes r :
  0 < zlen classes -> 0 < r ->
  repeat_wrapper (zlen classes) (Some r) None = Some (copies classes r).
Proof.
  intros. unfold repeat_wrapper. simpl.
  destruct (Z.leb_spec (zlen classes) 0); [lia|]. destruct (Z.leb_spec r 0); [lia|]. reflexivity.
Qed.

Lemma repeat_min_size_l classes m :
  0 < zlen classes -> 0 < m ->
  let n := zlen classes in
  let k := (m + n - 1) / n in
  repeat_wrapper n None (Some m) = Some (copies classes k) /\
  zlen (copies classes k) = k * n /\ (k - 1) * n < m <= k * n.
Proof.
  intros. unfold repeat_wrapper. simpl. fold n.
  destruct (Z.leb_spec n 0); [lia|]. destruct (Z.leb_spec m 0); [lia|].
  split. reflexivity. split.
  - unfold copies. rewrite zlen_concat_repeat. unfold all_ids. rewrite zlen_zrange. fold n.
    assert (0 <= k) by (unfold k; apply Z.div_pos; lia). nia.
  - unfold k. nia.
Qed.

Lemma copies_nth_l classes : forall k j,
  0 <= j < Z.of_nat k * zlen classes ->
  nth (Z.to_nat j) (concat (repeat (all_ids classes) k)) (-1) = j mod zlen classes.
Proof.
  set (n := zlen classes).
  assert (Hl : length (all_ids classes) = Z.to_nat n) by (unfold all_ids; rewrite zrange_length; f_equal; lia).
  induction k; intros. lia.
  simpl repeat. simpl concat. destruct (Z.ltb_spec j n).
  - rewrite app_nth1 by lia. unfold all_ids. rewrite (nth_indep _ (-1) 0) by (fold (all_ids classes); lia).
    rewrite zrange_nth by (fold (all_ids classes); lia). rewrite Z.mod_small; lia.
  - rewrite app_nth2 by lia. rewrite Hl.
    replace (Z.to_nat j - Z.to_nat n)%nat with (Z.to_nat (j - n)) by lia.
    rewrite IHk by lia. assert (0 < n) by lia.
    replace j with ((j - n) + 1 * n) at 2 by lia. now rewrite Z.mod_add by lia.
Qed.

(* ------------------------------------------------------------------ *)
(* SortByClassWrapper                                                  *)
(* ------------------------------------------------------------------ *)
Definition labels_in (classes : list Z) (C : Z) : Prop := Forall (fun c => 0 <= c < C) classes.

(* i comes before j: smaller class, or same class and smaller id (stable) *)
Definition before (classes : list Z) (i j : Z) : Prop :=
  cls classes i < cls classes j \/ (cls classes i = cls classes j /\ i < j).

Lemma filter_all {A} (f : A -> bool) l : (forall x, In x l -> f x = true) -> filter f l = l.
Proof.
  induction l; intros. reflexivity. simpl. rewrite H by (now left). f_equal. apply IHl. intros. apply H. now right.
Qed.

Lemma filter_none {A} (f : A -> bool) l : (forall x, In x l -> f x = false) -> filter f l = [].
Proof.
  induction l; intros. reflexivity. simpl. rewrite H by (now left). apply IHl. intros. apply H. now right.
Qed.

Lemma filter_split_perm {A} (f g h : A -> bool) l :
  (forall x, f x = g x || h x) -> (forall x, g x && h x = false) ->
  Permutation (filter f l) (filter g l ++ filter h l).
Proof.
  intros Hf Hd. induction l. constructor.
  simpl. rewrite Hf. specialize (Hd a). destruct (g a), (h a); simpl in *; try discriminate.
  - now constructor.
  - now apply Permutation_cons_app.
  - assumption.
Qed.

Lemma labels_in_cls classes C i : labels_in classes C -> 0 <= i < zlen classes -> 0 <= cls classes i < C.
Proof.
  intros H Hi. unfold labels_in in H. rewrite Forall_forall in H. apply H. now apply cls_in.
Qed.

Definition blocks (classes : list Z) (k : Z) : list Z := concat (map (fun c => positions c classes) (zrange 0 k)).

Lemma blocks_snoc classes k : 0 <= k -> blocks classes (k + 1) = blocks classes k ++ positions k classes.
Proof.
  intros. unfold blocks. rewrite zrange_snoc by lia. rewrite map_app, concat_app. simpl. now rewrite app_nil_r.
Qed.

Lemma blocks_perm_k classes : forall k : nat,
  Permutation (blocks classes (Z.of_nat k))
              (filter (fun i => (0 <=? cls classes i) && (cls classes i <? Z.of_nat k)) (all_ids classes)).
Proof.
  induction k.
  - unfold blocks. simpl. rewrite filter_none. constructor. intros. lia.
  - rewrite Nat2Z.inj_succ. unfold Z.succ. rewrite blocks_snoc by lia.
    rewrite positions_filter.
    etransitivity. apply Permutation_app_tail. apply IHk.
    symmetry. apply filter_split_perm; intros; lia.
Qed.

Lemma blocks_perm classes C : labels_in classes C -> Permutation (blocks classes C) (all_ids classes).
Proof.
  intros H. destruct (Z.leb_spec 0 C).
  - rewrite <- (Z2Nat.id C) by lia. etransitivity. apply blocks_perm_k.
    rewrite filter_all. reflexivity. intros x Hx. apply In_zrange in Hx.
    pose proof (labels_in_cls classes C x H Hx). lia.
  - destruct classes. unfold blocks. rewrite zrange_nil by lia. constructor.
    inversion H. lia.
Qed.

Lemma sorted_app {A} (R : A -> A -> Prop) l1 l2 :
  StronglySorted R l1 -> StronglySorted R l2 -> (forall x y, In x l1 -> In y l2 -> R x y) ->
  StronglySorted R (l1 ++ l2).
Proof.
  induction 1; intros; simpl. assumption.
  constructor. apply IHStronglySorted; auto. intros. apply H2; simpl; auto.
  apply Forall_forall. intros y Hy. apply in_app_or in Hy. destruct Hy.
  rewrite Forall_forall in H0. auto. apply H2; simpl; auto.
Qed.

Lemma sorted_impl_in {A} (R R' : A -> A -> Prop) l :
  StronglySorted R l -> (forall x y, In x l -> In y l -> R x y -> R' x y) -> StronglySorted R' l.
Proof.
  induction 1; intros. constructor. constructor.
  apply IHStronglySorted. intros. apply H1; simpl; auto.
  apply Forall_forall. intros y Hy. rewrite Forall_forall in H0. apply H1; simpl; auto.
Qed.

Lemma blocks_sorted_k classes : forall k : nat,
  StronglySorted (before classes) (blocks classes (Z.of_nat k)) /\
  forall x, In x (blocks classes (Z.of_nat k)) -> cls classes x < Z.of_nat k.
Proof.
  induction k.
  - unfold blocks. simpl. split. constructor. intros x [].
  - destruct IHk as (IHs & IHc). rewrite Nat2Z.inj_succ. unfold Z.succ. rewrite blocks_snoc by lia. split.
    + apply sorted_app; auto.
      * apply sorted_impl_in with (R := Z.lt). apply positions_sorted.
        intros x y Hx Hy Hlt. apply In_positions in Hx. apply In_positions in Hy. right. lia.
      * intros x y Hx Hy. apply IHc in Hx. apply In_positions in Hy. left. lia.
    + intros x Hx. apply in_app_or in Hx. destruct Hx as [Hx|Hx].
      apply IHc in Hx. lia. apply In_positions in Hx. lia.
Qed.

Lemma sort_by_class_l classes C :
  labels_in classes C ->
  Permutation (sort_by_class classes C) (all_ids classes) /\
  StronglySorted (before classes) (sort_by_class classes C).
Proof.
  intros H. split. apply (blocks_perm classes C H).
  destruct (Z.leb_spec 0 C).
  - rewrite <- (Z2Nat.id C) by lia. apply blocks_sorted_k.
  - unfold sort_by_class. rewrite zrange_nil by lia. constructor.
Qed.

(* the relation is a strict total order on sample ids, so the sorted permutation is unique:
   sort_by_class is THE stable sort *)
Lemma before_trans classes i j k : before classes i j -> before classes j k -> before classes i k.
Proof. unfold before. lia. Qed.

Lemma before_irrefl classes i : ~ before classes i i.
Proof. unfold before. lia. Qed.

Lemma before_total classes i j : i <> j -> before classes i j \/ before classes j i.
Proof. unfold before. lia. Qed.

(* ------------------------------------------------------------------ *)
(* class counts                                                        *)
(* ------------------------------------------------------------------ *)
Lemma combine_map_self {A B} (f : A -> B) l : combine l (map f l) = map (fun x => (x, f x)) l.
Proof. induction l; simpl. reflexivity. now rewrite IHl. Qed.

Lemma zrange_max0 c : zrange 0 (Z.max 0 c) = zrange 0 c.
Proof. destruct (Z.leb_spec 0 c). now rewrite Z.max_r by lia. rewrite Z.max_l by lia. now rewrite !zrange_nil by lia. Qed.

Definition counts_of (classes : list Z) (C' : Z) : list Z := map (fun c => count_of c classes) (zrange 0 C').
Definition mxc (classes : list Z) (C' : Z) : Z := zmax (counts_of classes C').

Lemma class_counts_some classes C :
  labels_in classes (n_classes_eff C) -> class_counts classes C = Some (counts_of classes (n_classes_eff C)).
Proof.
  intros H. unfold class_counts. rewrite (proj2 (forallb_forall _ _)). reflexivity.
  unfold labels_in in H. rewrite Forall_forall in H. intros x Hx. specialize (H x Hx). lia.
Qed.

Lemma class_counts_inv classes C counts :
  class_counts classes C = Some counts -> counts = counts_of classes (n_classes_eff C).
Proof. unfold class_counts, counts_of. cbv zeta. destruct (forallb _ _); intros E; inversion E; reflexivity. Qed.

Lemma zmax_ge l x : In x l -> x <= zmax l.
Proof. induction l; simpl; intros. tauto. destruct H. subst. lia. specialize (IHl H). lia. Qed.

Lemma zmax_nonneg l : 0 <= zmax l.
Proof. induction l; simpl; lia. Qed.

Lemma zmax_in l : zmax l = 0 \/ In (zmax l) l.
Proof.
  induction l; simpl. auto. destruct IHl.
  - destruct (Z.max_spec a (zmax l)) as [(?&->)|(?&->)]; auto.
  - destruct (Z.max_spec a (zmax l)) as [(?&->)|(?&->)]; auto.
Qed.

Lemma count_le_mxc classes C' c : 0 <= c < C' -> count_of c classes <= mxc classes C'.
Proof.
  intros. apply zmax_ge. unfold counts_of. apply in_map_iff. exists c. split; auto. now apply In_zrange.
Qed.

Lemma mxc_attained classes C' : 0 < mxc classes C' -> exists c, 0 <= c < C' /\ count_of c classes = mxc classes C'.
Proof.
  intros. destruct (zmax_in (counts_of classes C')) as [E|E]. unfold mxc in H. lia.
  unfold counts_of in E at 2. apply in_map_iff in E. destruct E as (c & E & Hc). apply In_zrange in Hc.
  exists c. split; auto.
Qed.

Lemma mxc_pos classes C' : classes <> [] -> labels_in classes C' -> 0 < mxc classes C'.
Proof.
  intros Hne Hl. destruct classes as [|c r]. congruence.
  inversion Hl; subst. pose proof (count_le_mxc (c :: r) C' c H1).
  assert (0 < count_of c (c :: r)).
  { rewrite count_of_cntf, cntf_cons, Z.eqb_refl. pose proof (cntf_nonneg (Z.eqb c) r). lia. }
  lia.
Qed.

(* ------------------------------------------------------------------ *)
(* counting over a concatenation of per-class blocks                   *)
(* ------------------------------------------------------------------ *)
Lemma cntf_concat_map_zero f (g : Z -> list Z) l :
  (forall c, In c l -> cntf f (g c) = 0) -> cntf f (concat (map g l)) = 0.
Proof.
  induction l; intros. reflexivity. simpl. rewrite cntf_app, H by (now left). rewrite IHl. reflexivity.
  intros. apply H. now right.
Qed.

Lemma cntf_concat_map_single f (g : Z -> list Z) l c0 :
  NoDup l -> In c0 l -> (forall c, In c l -> c <> c0 -> cntf f (g c) = 0) ->
  cntf f (concat (map g l)) = cntf f (g c0).
Proof.
  induction 1; intros Hin Hz. destruct Hin.
  simpl. rewrite cntf_app. destruct Hin.
  - subst. rewrite cntf_concat_map_zero. lia.
    intros c Hc. apply Hz. now right. intro. subst. contradiction.
  - rewrite (Hz x). rewrite IHNoDup; auto. intros. apply Hz; auto. now right.
    now left. intro. subst. contradiction.
Qed.

Lemma cntf_blocks_single f (g : Z -> list Z) C' c0 :
  0 <= c0 < C' -> (forall c, 0 <= c < C' -> c <> c0 -> cntf f (g c) = 0) ->
  cntf f (concat (map g (zrange 0 C'))) = cntf f (g c0).
Proof.
  intros. apply cntf_concat_map_single. apply zrange_nodup. now apply In_zrange.
  intros c Hc. apply In_zrange in Hc. auto.
Qed.
