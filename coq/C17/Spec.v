(* Property C17 stated on what the collators return (no implementation vocabulary:
   no tries, no remaining budget, no traces).  Boolean versions are evaluated on
   the implementation's real output by the correspondence run. *)
From Coq Require Import ZArith List Bool Permutation.
Import ListNotations.
From KD Require Import C17.Model.
Open Scope Z_scope.

(* ------------------------------------------------- generator contracts *)
(* a <= b for rationals with positive denominators *)
Definition rat_le (a b : rat) : Prop := fst a * snd b <= fst b * snd a.

(* what the theorems assume about one recorded draw:
     rng.uniform(lo, hi)  lies in [lo, hi]   (exactly represented binary64 values)
     int(round(sqrt(..))) is not negative
     rng.integers(lo, hi) lies in [lo, hi)
     rng.shuffle          applies a permutation of the positions
   nothing is assumed about torch.Generator().manual_seed. *)
Definition draw_ok (d : draw) : Prop :=
  match d with
  | DUnif lo hi v => 0 < snd lo /\ 0 < snd hi /\ 0 < snd v /\ rat_le lo v /\ rat_le v hi
  | DRound v => 0 <= v
  | DInt lo hi v => lo <= v < hi
  | DPerm p => Permutation p (seq 0 (length p))
  | DSeed _ => True
  end.

(* configurations the property quantifies over *)
Definition dcfg_ok (c : dcfg) : Prop :=
  0 <= dH c /\ 0 <= dW c /\ 0 <= dV c /\ 0 <= dPn c <= dPd c /\ 0 < dPd c /\ 0 <= dRn c /\ 0 < dRd c.

Definition jcfg_ok (c : jcfg) : Prop := 1 <= jH c /\ 1 <= jW c.

(* the block-size oracle returns what int(round(sqrt(..))) can return *)
Definition sizes_ok (sizes : Z -> raw4) : Prop :=
  forall s, let '(a, b, e, f) := sizes s in 0 <= a /\ 0 <= b /\ 0 <= e /\ 0 <= f.

(* ---------------------------------------------------------------- DINO *)
Definition count_true (r : list bool) : Z := fold_right (fun (b : bool) a => (if b then 1 else 0) + a) 0 r.
Definition popcount (m : mask) : Z := fold_right (fun r a => count_true r + a) 0 m.

Definition well_shaped (H W : Z) (m : mask) : Prop := len m = H /\ Forall (fun r => len r = W) m.
Definition well_shapedb (H W : Z) (m : mask) : bool := (len m =? H) && forallb (fun r => len r =? W) m.

Definition nonempty (m : mask) : bool := 0 <? popcount m.
Definition count_nonempty (ms : list mask) : Z := len (filter nonempty ms).

(* floor(batch * views * mask_prob) *)
Definition budget (c : dcfg) (B : Z) : Z := B * dV c * dPn c / dPd c.
(* floor(upper mask ratio * number of patches) *)
Definition cap (c : dcfg) : Z := dRn c * (dH c * dW c) / dRd c.

Definition dino_ok (c : dcfg) (B : Z) (ms : list mask) : Prop :=
  len ms = B * dV c /\
  Forall (well_shaped (dH c) (dW c)) ms /\
  count_nonempty ms <= budget c B /\
  Forall (fun m => popcount m <= cap c) ms.

Definition dino_okb (c : dcfg) (B : Z) (ms : list mask) : bool :=
  (len ms =? B * dV c) && forallb (well_shapedb (dH c) (dW c)) ms
  && (count_nonempty ms <=? budget c B) && forallb (fun m => popcount m <=? cap c) ms.

(* -------------------------------------------------------------- I-JEPA *)
(* lo <= x0 < x1 < ... < hi : in range, sorted, duplicate-free *)
Fixpoint strictly_inc (lo : Z) (l : list Z) (hi : Z) : bool :=
  match l with
  | [] => true
  | x :: l' => (lo <=? x) && (x <? hi) && strictly_inc (x + 1) l' hi
  end.

(* flat indices of the h x w rectangle with upper left corner (top, lf) in a grid of width W *)
Definition rect_list (W top lf h w : Z) : list Z :=
  flat_map (fun i => map (fun j => i * W + j) (zseq lf (Z.to_nat w))) (zseq top (Z.to_nat h)).

Definition is_rect (H W h w : Z) (l : list Z) : Prop :=
  exists top lf, 0 <= top /\ top + h <= H /\ 0 <= lf /\ lf + w <= W /\ l = rect_list W top lf h w.

Fixpoint list_eqb (a b : list Z) : bool :=
  match a, b with
  | [], [] => true
  | x :: a', y :: b' => (x =? y) && list_eqb a' b'
  | _, _ => false
  end.

Definition is_rectb (H W h w : Z) (l : list Z) : bool :=
  match l with
  | [] => h * w =? 0
  | x :: _ =>
      let top := x / W in
      let lf := x mod W in
      (0 <=? top) && (top + h <=? H) && (0 <=? lf) && (lf + w <=? W) && list_eqb l (rect_list W top lf h w)
  end.

Definition disjoint (a b : list Z) : Prop := forall x, In x a -> ~ In x b.
Definition disjointb (a b : list Z) : bool := forallb (fun x => negb (existsb (Z.eqb x) b)) a.

Definition common_length (k : Z) (rows : list (list Z)) : Prop := Forall (fun r => len r = k) rows.
Definition common_lengthb (rows : list (list Z)) : bool :=
  match rows with [] => true | r :: _ => forallb (fun r' => len r' =? len r) rows end.

(* the property's premise for one call: encoder block area minus number of predictor
   masks times predictor block area exceeds min_keep *)
Definition premise (c : jcfg) (psize esize : Z * Z) : Prop :=
  fst esize * snd esize - Z.of_nat (jNPred c) * (fst psize * snd psize) > jMinKeep c.
Definition premiseb (c : jcfg) (psize esize : Z * Z) : bool :=
  jMinKeep c <? fst esize * snd esize - Z.of_nat (jNPred c) * (fst psize * snd psize).

(* per sample: (predictor masks, encoder masks) *)
Definition sample_ok (c : jcfg) (ph pw : Z) (s : sample) : Prop :=
  Forall (fun l => strictly_inc 0 l (jH c * jW c) = true) (fst s ++ snd s) /\
  Forall (is_rect (jH c) (jW c) ph pw) (fst s).

Definition sample_disjoint (s : sample) : Prop :=
  forall e p, In e (snd s) -> In p (fst s) -> disjoint e p.

(* rows j*B + b of the returned tensors belong to sample b *)
Definition row (rows : list (list Z)) (B : Z) (j b : Z) : list Z := nth (Z.to_nat (j * B + b)) rows [].

(* the size (h, w) of the rectangle a non-empty sorted index list would be: length of
   the leading run of consecutive indices, and the rest *)
Fixpoint run_len (l : list Z) : Z :=
  match l with
  | x :: ((y :: _) as l') => if y =? x + 1 then 1 + run_len l' else 1
  | [_] => 1
  | [] => 0
  end.

(* the boolean spec on the returned rows; the common rectangle size is read off the first row *)
Definition ijepa_rows_okb (c : jcfg) (B : Z) (prem : bool) (enc pred : list (list Z)) : bool :=
  let nE := Z.of_nat (jNEnc c) in
  let nP := Z.of_nat (jNPred c) in
  let total := jH c * jW c in
  (len enc =? nE * B) && (len pred =? nP * B)
  && forallb (fun l => strictly_inc 0 l total) (enc ++ pred)
  && common_lengthb enc && common_lengthb pred
  && (match pred with
      | [] => true
      | p0 :: _ =>
          let w := run_len p0 in
          let h := if w =? 0 then 0 else len p0 / w in
          forallb (is_rectb (jH c) (jW c) h w) pred
      end)
  && (if prem then
        forallb (fun b =>
          forallb (fun j =>
            forallb (fun k => disjointb (row enc B j b) (row pred B k b)) (zseq 0 (jNPred c)))
            (zseq 0 (jNEnc c)))
          (zseq 0 (Z.to_nat B))
      else true).

(* the property on the returned rows, as a proposition (what ijepa_rows_okb decides) *)
Definition ijepa_ok (c : jcfg) (B : Z) (psize esize : Z * Z) (enc pred : list (list Z)) : Prop :=
  len enc = Z.of_nat (jNEnc c) * B /\ len pred = Z.of_nat (jNPred c) * B /\
  Forall (fun l => strictly_inc 0 l (jH c * jW c) = true) (enc ++ pred) /\
  (exists k, common_length k enc) /\ (exists k, common_length k pred) /\
  Forall (is_rect (jH c) (jW c) (fst psize) (snd psize)) pred /\
  (premise c psize esize ->
   forall j k b : nat, (j < jNEnc c)%nat -> (k < jNPred c)%nat -> (Z.of_nat b < B) ->
     disjoint (row enc B (Z.of_nat j) (Z.of_nat b)) (row pred B (Z.of_nat k) (Z.of_nat b))).
