(* Executable comparison of what the real samplers showed (all ranks of one
   configuration, torch draw functions spied) with the model (replaying the
   recorded draws) and with the spec.  Used by harness/c13.py. *)
From Coq Require Import ZArith List Bool Arith.
Import ListNotations.
From KD Require Import C12.Model C12.Spec C13.Model C13.Spec.

Inductive kcfg := KCB (c : cbcfg) | KSemi (c : semicfg) | KW (c : wcfg).

(* one rank: result code (0 ok, 1 AssertionError, 2 did not return), list(sampler),
   len(sampler), manual_seed arguments, (requested size, result) of every draw on
   the epoch's generator, values of the Tensor.random_() calls *)
Definition rank_rec : Type := nat * list nat * nat * list Z * list (nat * list nat) * list Z.

(* configuration, the records of rank 0..W-1, and the stream of the same sampler
   built with world size 1 (the global draw seen from outside; [] for the semi sampler) *)
Definition case_t : Type := kcfg * list rank_rec * list nat.

Definition replay (ds : list (nat * list nat)) : oracle := fun _ h _ => snd (nth (length h) ds (0, [])).
Definition code_of (o : outcome (list nat)) : nat := match o with Ok _ => 0 | AssertFail => 1 | Runaway => 2 end.

Definition model_run (k : kcfg) (ds : list (nat * list nat)) (rnd : list Z) (rank : nat) : option run :=
  match k with
  | KCB c => Some (cb_run c (replay ds) rank)
  | KW c => Some (w_run c (replay ds) rank)
  | KSemi c =>
      if semi_ctor_ok c then
        match rnd with
        | [rank_seed; epoch_seed] => Some (semi_run c rank_seed epoch_seed (replay ds) rank)
        | _ => None
        end
      else Some (semi_run c 0 0 (replay ds) rank)
  end.

Definition rank_agrees (k : kcfg) (rank : nat) (rr : rank_rec) : bool :=
  let '(code, stream, len, seeds, ds, rnd) := rr in
  match model_run k ds rnd rank with
  | None => false
  | Some m =>
      (code_of (r_out m) =? code) &&
      (if code =? 0
       then list_eqb Nat.eqb (stream_of (r_out m)) stream && (r_len m =? len)
            && list_eqb Z.eqb (r_seeds m) seeds && list_eqb Nat.eqb (r_reqs m) (map fst ds)
       else true)
  end.

Definition world (k : kcfg) : nat := match k with KCB c => cb_W c | KSemi c => se_W c | KW c => w_W c end.

Definition spec_mode (m : lmode) : length_mode :=
  match m with MLabeled => ByLabeled | MUnlabeled => ByUnlabeled | _ => ByAll end.

Definition spec_holds (k : kcfg) (recs : list rank_rec) (G : list nat) : bool :=
  let streams := map (fun '(_, st, _, _, _, _) => st) recs in
  let L := match recs with (_, _, len, _, _, _) :: _ => len | [] => 0 end in
  let W := world k in
  (* every rank reports the same len(sampler) and yields exactly that many indices *)
  forallb (fun '(_, st, len, _, _, _) => (len =? L) && (length st =? L)) recs &&
  match k with
  | KCB c =>
      let classes := cb_classes c in
      let C := cb_C c in let spc := cb_spc c in
      (L =? C * spc / W) &&
      exact_per_classb classes C spc G && reuse_evenb classes C spc G &&
      indices_validb (length classes) G && forallb (indices_validb (length classes)) streams &&
      split_ofb true W L G streams
  | KSemi c =>
      let classes := se_classes c in
      (L =? epoch_length (spec_mode (se_mode c)) (length (labeled_pool classes)) (length (unlabeled_pool classes))
                         (se_L c) (se_U c) / W) &&
      forallb (fun s => alternationb classes (se_L c) (se_U c) s &&
                        blocks_exhaustb (labeled_pool classes) (labeled_picks classes s) &&
                        blocks_exhaustb (unlabeled_pool classes) (unlabeled_picks classes s)) streams
  | KW c =>
      let E := match w_size c with Some s => s | None => w_n c end in
      (L =? E / W) && (length G =? E) &&
      nodupb (interleave streams) && nodupb G &&
      indices_validb (w_n c) G && forallb (indices_validb (w_n c)) streams &&
      split_ofb true W L G streams
  end.

(* 0 = implementation, model and spec agree; 1 = the model differs from the
   implementation; 2 = the spec is false of the implementation's output
   (whether or not the model agrees) *)
Definition check (t : case_t) : nat :=
  let '(k, recs, G) := t in
  if forallb (fun '(code, _, _, _, _, _) => code =? 0) recs && negb (spec_holds k recs G) then 2
  else if negb ((length recs =? world k) &&
                forallb (fun '(rank, rr) => rank_agrees k rank rr) (combine (seq 0 (length recs)) recs))
  then 1
  else 0.
