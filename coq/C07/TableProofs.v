(* Obligations about the GENERATED table (gen/RngTable.v, regenerated from the sources on every run). *)
From Coq Require Import ZArith List Bool String.
Import ListNotations.
From KD Require Import C07.RngGraph C07.Proofs C07.gen.RngTable.

(* vm_compute lists the classes that are not closed; when a class stops forwarding set_rng (or starts using a
   global generator) this fails with `Unable to unify "[]" with "["TheClass"]"`. *)
Lemma rng_table_no_open_class : open_classes rng_table = [].
Proof. vm_compute. reflexivity. Qed.

Lemma table_closed_proof : forallb (closed rng_table) rng_table = true.
Proof. apply open_nil_closed. exact rng_table_no_open_class. Qed.
