(* the order of the calls the main sampler OBJECT receives: set_epoch(e) and
   iter() alternate, epoch after epoch, starting with the run's first epoch -
   so whatever epoch the object held before the iteration (a stale one from an
   earlier run, another scheduler sharing the object, a foreign set_epoch), at
   every start of its iteration it holds exactly the epoch the loop consumes.
   And: iterating an InterleavedSampler is a function of its constructed
   attributes (and of the side samplers' own iteration counts) only. *)
From Coq Require Import ZArith List Bool Lia.
Import ListNotations.
From KD Require Import C04.Model C04.Spec C04.Lists C04.Arith C04.Sides C04.Proofs C04.Corollaries C04.Batches C04.Bounds.
Open Scope Z_scope.

(* the calls received by the main sampler object, in order *)
Definition is_ctl (ev : event) : bool := negb (is_yield ev).
Definition ctl (tr : list event) : list event := filter is_ctl tr.

(* set_epoch(e), iter(), set_epoch(e+1), iter(), ... for k epochs *)
Fixpoint ctl_seq (e : Z) (k : nat) : list event :=
  match k with O => [] | S k' => SetEpoch e :: IterStart e :: ctl_seq (e + 1) k' end.
Fixpoint zseq (e : Z) (k : nat) : list Z :=
  match k with O => [] | S k' => e :: zseq (e + 1) k' end.

Lemma filter_length_le {A} (p : A -> bool) l : (length (filter p l) <= length l)%nat.
Proof. induction l as [|x l IH]; [auto|]. cbn [filter]. destruct (p x); cbn [length]; lia. Qed.

Lemma filter_id_forallb {A} (p : A -> bool) l : filter p l = l -> forallb p l = true.
Proof.
  induction l as [|x l IH]; intros H; [reflexivity|]. cbn [filter] in H. cbn [forallb].
  destruct (p x) eqn:E.
  - injection H as H. now rewrite IH.
  - exfalso. pose proof (filter_length_le p l) as Hl. rewrite H in Hl. cbn [length] in Hl. lia.
Qed.

Lemma ctl_yields l : forallb is_yield l = true -> ctl l = [].
Proof.
  induction l as [|x l IH]; intros H; [reflexivity|]. cbn [forallb] in H. apply andb_true_iff in H.
  destruct H as [H1 H2]. unfold ctl, is_ctl in *. cbn [filter]. rewrite H1. cbn [negb]. now apply IH.
Qed.

Lemma held_yields a r l : forallb is_yield l = true -> held a (l ++ r) = held a r.
Proof.
  induction l as [|x l IH]; intros H; [reflexivity|]. cbn [forallb] in H. apply andb_true_iff in H.
  destruct H as [H1 H2]. destruct x; cbn [is_yield] in H1; try discriminate; cbn [app held]; now apply IH.
Qed.

Lemma labels_yields r l : forallb is_yield l = true -> iter_labels (l ++ r) = iter_labels r.
Proof.
  induction l as [|x l IH]; intros H; [reflexivity|]. cbn [forallb] in H. apply andb_true_iff in H.
  destruct H as [H1 H2]. destruct x; cbn [is_yield] in H1; try discriminate; cbn [app iter_labels]; now apply IH.
Qed.

Section O.
  Variables (c : cfg) (mi : Z -> list Z).
  Hypothesis W : WF c mi.

  Lemma epoch_yields e pn :
    forallb is_yield (flat_map u_events (fst (take_until (hit c) (epoch_updates c mi e pn)))) = true.
  Proof. apply filter_id_forallb. exact (strip_epoch_prefix c mi e pn). Qed.

  Lemma order_spec : forall n e pn tr, spec_run c mi e pn n = Some tr ->
    exists k, ctl tr = ctl_seq e (S k) /\ iter_labels tr = zseq e (S k) /\
              forall ann, held ann tr = map Some (zseq e (S k)).
  Proof.
    induction n as [|n IH]; intros e pn tr H; [discriminate|]. cbn [spec_run] in H.
    pose proof (epoch_yields e pn) as HY.
    set (Y := flat_map u_events (fst (take_until (hit c) (epoch_updates c mi e pn)))) in *.
    destruct (epoch_hits c mi e).
    - injection H as <-. exists 0%nat. unfold epoch_events. fold Y. split; [|split].
      + unfold ctl. cbn [filter is_ctl is_yield negb]. fold (ctl Y). now rewrite ctl_yields.
      + cbn [iter_labels zseq]. rewrite <- (app_nil_r Y), labels_yields by exact HY. reflexivity.
      + intros ann. cbn [held zseq map]. rewrite <- (app_nil_r Y), held_yields by exact HY. reflexivity.
    - destruct (spec_run c mi (e + 1) (pn_next c mi e pn) n) as [rest|] eqn:E; [|discriminate].
      injection H as <-. destruct (IH _ _ _ E) as [k (H1 & H2 & H3)]. exists (S k).
      unfold epoch_events. fold Y. split; [|split].
      + unfold ctl. cbn [app filter is_ctl is_yield negb]. rewrite filter_app. fold (ctl Y). fold (ctl rest).
        rewrite ctl_yields by exact HY. cbn [app]. rewrite H1. reflexivity.
      + cbn [app iter_labels]. rewrite labels_yields by exact HY. rewrite H2. reflexivity.
      + intros ann. cbn [app held]. rewrite held_yields by exact HY. rewrite H3. reflexivity.
  Qed.

  (* C04: in the stream of a run started at epoch e0 (e0 = 0 or the checkpoint
     of a resume) the calls the main sampler receives are exactly
     set_epoch(e0), iter(), set_epoch(e0+1), iter(), ...: every epoch's
     announcement comes before the start of that epoch's iteration, the first
     one included, and the iterations consumed are those of e0, e0+1, ... *)
  Theorem set_epoch_precedes_iter_start n e0 pn tr : length pn = length (sides c) ->
    run c mi n (start_state c e0 pn) = Some tr ->
    exists k, ctl tr = ctl_seq e0 (S k) /\ iter_labels tr = zseq e0 (S k).
  Proof.
    intros Hpl. unfold start_state. rewrite (model_eq_spec c mi W) by exact Hpl. intros H.
    destruct (order_spec n e0 pn tr H) as [k (H1 & H2 & _)]. eauto.
  Qed.

  (* C06: the start epoch is announced at the START of every iteration, and so is
     every later epoch: whatever the main sampler object held before ([ann]
     arbitrary), at each call of its __iter__ it holds the epoch whose
     iteration the loop consumes *)
  Theorem held_at_iter_start n e0 pn tr : length pn = length (sides c) ->
    run c mi n (start_state c e0 pn) = Some tr ->
    forall ann, held ann tr = map Some (iter_labels tr).
  Proof.
    intros Hpl. unfold start_state. rewrite (model_eq_spec c mi W) by exact Hpl. intros H ann.
    destruct (order_spec n e0 pn tr H) as [k (_ & H2 & H3)]. now rewrite H2, H3.
  Qed.
End O.

(* C06: the stream of an iteration depends on the constructed attributes and on
   the side samplers' iteration counts only: not on what the main sampler object
   held before, and - the InterleavedSampler having no state that an iteration
   changes - not on earlier (complete or abandoned) iterations of the object *)
Theorem iteration_independent_of_history c mi e u s w1 w2 :
  w_pcs w1 = w_pcs w2 -> iterate c mi e u s w1 = iterate c mi e u s w2.
Proof. unfold iterate. now intros ->. Qed.

(* C05: the constructor takes the configs as they are given - the constructed
   sampler reads the very config values it was handed (no default is written
   back into a config: a config without a batch size of its own still has none
   afterwards and is batched by the batch size of whichever InterleavedSampler
   iterates it, Model.side_pass) *)
Theorem ctor_configs_unchanged a c e u s : ctor a = Ok c e u s ->
  sides c = a_sides a /\ forall ci sc p off, side_pass c ci off sc p
    = side_pass_aux ci (or_default (sbs sc) (lB c)) (slen sc) off 0 (sidx sc p).
Proof. intros H. destruct (ctor_ok _ _ _ _ _ H) as (-> & _). split; reflexivity. Qed.
