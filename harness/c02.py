"""C02 — stacked subsets, concats and wrappers address the right underlying sample.

Cases are random nestings of KDSubset / KDConcatDataset / KDWrapper (and subclasses)
over root datasets whose item `x` is the sample identity id*1000+pos.  The real stack
is built and queried; the Coq model (coq/C02/Model.v) and spec (Spec.v) are evaluated
on the same stack; an independent Python oracle flattens the nesting with plain list
operations and states the property on what the real objects returned."""
import itertools
import json
import os

from .common import C, Nat, Opt, Raw, Rec, coq

ID = "C02"
COQ_FILES = ["C02/Model.v", "C02/Spec.v", "C02/Check.v", "C02/Proofs.v", "C02/Property.v"]
COQ_PRELUDE = ("From Coq Require Import ZArith List Bool.\nImport ListNotations.\n"
               "From KD Require Import C02.Model C02.Spec C02.Check.\nOpen Scope Z_scope.\n")
COQ_CHECK = "check"
COQ_CASE_TYPE = "case_t"
SHARD = 150
TRUSTED = [
    "hand-written model coq/C02/Model.v of KDSubset/KDConcatDataset/KDWrapper/KDDataset index translation, "
    "getall, utils.getall fast/slow path and introspection; tied to KD_REPO by this run's correspondence evaluation",
    "torch.utils.data.Subset / ConcatDataset constructors (only their indices / cumulative_sizes results are used); "
    "bisect.bisect_right on a non-decreasing list = first position whose entry exceeds the key",
    "Python list / ndarray / tensor indexing (negative wraps once, IndexError beyond); int(idx / P) = truncated "
    "quotient (exact below 2**53)",
    "harness/c02.py: stack builder, root dataset returning id*1000+pos, observation canonicalisation",
    "all raised exceptions are one error value (IndexError, ValueError, ZeroDivisionError, AssertionError)",
]
ASSUMPTIONS = [
    "valid stacks: subset entries address existing items of the layer below (negative entries allowed), concats "
    "non-empty with finite parts, parts of a balanced concat non-empty",
    "getall-vs-getitem agreement is claimed for stacks without a balanced concat (KDConcatDataset._call_getall "
    "ignores balanced_sampling: a recorded known finding, reproduced on every run by corpus/C02/known_balanced_getall.json) and for "
    "concat parts whose getall returns a list (the code asserts it)",
    "balanced concat: non-negative indices (the spec is silent on negative ones; the model mirrors the code)",
    "attribute delegation is exercised for root_dataset, getshape_x/getdim_x, one plain attribute and dispose only",
]
RULE = ("random nestings depth 1-6 over 1-4 roots of size 0-12: subset index lists with repeats and negative entries "
        "(list/ndarray/tensor), concats of 1-4 parts incl. empty parts, balanced concats at the top or under a subset, "
        "wrapper classes with 5 type tags, getall providers list/ndarray/tensor/absent, all valid k plus a few invalid; "
        "non-trivial = depth >= 2 and at least one item resolved; distinct by stack shape")
ALLOWED_AXIOMS = []
KNOWN_FINDINGS_PROPOSED = [
    {"property": "C02", "match": {"probe": "balanced_getall"},
     "what": "KDSubset(KDConcatDataset([a,b], balanced_sampling=True), idxs): getitem_x follows the round-robin map, "
             "getall_x indexes the plain concatenation, so getall_x()[k] != getitem_x(k) (see fixes/C02_balanced_getall.txt)"},
]

SUB_TAGS = [0, 1]
WRAP_TAGS = [2, 3, 4]
EXPECTED_ERRORS = (IndexError, ValueError, ZeroDivisionError, AssertionError)


# ---------------------------------------------------------------------------
# tree helpers (independent of kappadata)
# ---------------------------------------------------------------------------
def t_len(t):
    """length of the tree's dataset or None when it has none / cannot be built"""
    k = t["t"]
    if k == "root":
        return t["n"]
    if k == "sub":
        return len(t["idxs"])
    if k == "wrap":
        return t_len(t["s"])
    if t["bal"]:
        return None
    ls = [t_len(p) for p in t["parts"]]
    return None if any(x is None for x in ls) else sum(ls)


def t_depth(t):
    k = t["t"]
    if k == "root":
        return 0
    if k == "cat":
        return 1 + max([t_depth(p) for p in t["parts"]] or [0])
    return 1 + t_depth(t["s"])


def t_shape(t):
    k = t["t"]
    if k == "root":
        return "R%d%s" % (t["n"], t["pk"][0])
    if k == "sub":
        return "S%d(%s)" % (len(t["idxs"]), t_shape(t["s"]))
    if k == "wrap":
        return "W%d(%s)" % (t["tag"], t_shape(t["s"]))
    return ("B" if t["bal"] else "C") + "[" + ",".join(t_shape(p) for p in t["parts"]) + "]"


def t_has(t, pred):
    if pred(t):
        return True
    if t["t"] == "cat":
        return any(t_has(p, pred) for p in t["parts"])
    if t["t"] == "root":
        return False
    return t_has(t["s"], pred)


# ---------------------------------------------------------------------------
# independent oracle: flatten the nesting with list operations
# ---------------------------------------------------------------------------
def o_den(t):
    """('fin', [samples]) or ('cyc', [[samples] per part]); None when the stack is outside the property's domain"""
    k = t["t"]
    if k == "root":
        return ("fin", [t["id"] * 1000 + j for j in range(t["n"])])
    if k == "wrap":
        return o_den(t["s"])
    if k == "sub":
        d = o_den(t["s"])
        if d is None:
            return None
        out = []
        for i in t["idxs"]:
            v = o_at(d, i)
            if v is None:
                return None
            out.append(v)
        return ("fin", out)
    parts = [o_den(p) for p in t["parts"]]
    if not parts or any(p is None or p[0] != "fin" for p in parts):
        return None
    if t["bal"]:
        if any(len(p[1]) == 0 for p in parts):
            return None
        return ("cyc", [p[1] for p in parts])
    return ("fin", [v for p in parts for v in p[1]])


def o_at(d, k):
    if d[0] == "fin":
        return d[1][k] if -len(d[1]) <= k < len(d[1]) else None
    if k < 0:
        return None
    # round-robin: enumerate the endless stream part by part
    stream = (part[j % len(part)] for j in itertools.count() for part in d[1])
    return next(itertools.islice(stream, k, None))


def o_roots(t):
    if t["t"] == "root":
        return [t["id"]]
    if t["t"] == "cat":
        return [r for p in t["parts"] for r in o_roots(p)]
    return o_roots(t["s"])


def o_chain(t):
    """(tags of the layers, root id) of a linear chain, None when a concat is met"""
    tags = []
    while t["t"] in ("sub", "wrap"):
        tags.append(t["tag"])
        t = t["s"]
    return (tags, t["id"]) if t["t"] == "root" else None


def o_getall_claimed(t):
    """getall is offered by every root, no balanced concat below, concat parts give lists"""
    def part_is_list(p):
        while p["t"] == "wrap":
            p = p["s"]
        return p["t"] != "root" or p["pk"] == "list"

    def ok(t):
        if t["t"] == "root":
            return True
        if t["t"] == "cat":
            return not t["bal"] and all(ok(p) and part_is_list(p) for p in t["parts"])
        return ok(t["s"])
    return ok(t)


def oracle(case, obs):
    if "harness_exception" in obs:
        return "harness exception: " + obs["harness_exception"] + obs.get("tb", "")
    t = case["stack"]
    d = o_den(t)
    if d is None:
        return None
    if not obs["ctor"]:
        return "a valid stack could not be constructed: " + str(obs.get("ctor_err"))
    if d[0] == "fin":
        if obs["len"] != len(d[1]):
            return f"len(stack) = {obs['len']} but the index map has {len(d[1])} entries"
    for k, it in zip(case["ks"], obs["items"]):
        exp = o_at(d, k)
        if exp is not None and it != exp:
            return f"getitem_x({k}) = {it}, the composed index map gives {exp} (root {exp // 1000} item {exp % 1000})"
    has_all = not t_has(t, lambda n: n["t"] == "root" and n["pk"] == "none")
    if obs["hasall"] != has_all:
        return f"hasattr(stack, 'getall_x') = {obs['hasall']} although " + (
            "every root provides getall_x" if has_all else "a root below has no getall_x")
    if has_all and o_getall_claimed(t):
        if obs["getall"] != ["ok", obs["getall"][1], d[1]] or d[0] != "fin":
            return f"getall_x() = {obs['getall']} but the per-sample accessor / index map gives {d[1]}"
    if d[0] == "fin" and (not has_all or o_getall_claimed(t)):
        for nm in ("util", "util_list", "util_numpy", "util_tensor"):
            if obs[nm][0] != "ok" or obs[nm][2] != d[1]:
                return f"utils.{nm.replace('util', 'getall').replace('getall_', 'getall_as_')}(stack,'x') = {obs[nm]} but the index map gives {d[1]}"
    if case.get("probe") == "balanced_getall" and d[0] == "fin" and has_all:
        if obs["getall"][0] == "ok" and obs["getall"][2] != d[1]:
            return f"getall_x() = {obs['getall'][2]} but getitem_x over range(len) = {d[1]} (balanced concat below)"
    if sorted(obs["dispose"]) != sorted(o_roots(t)) or obs["dispose"] != o_roots(t):
        return f"dispose() reached roots {obs['dispose']}, the stack contains roots {o_roots(t)}"
    ch = o_chain(t)
    if ch is not None:
        tags, rid = ch
        if obs["root"] != rid:
            return f"root_dataset is root {obs['root']}, the chain ends in root {rid}"
        if obs["attr"] != [rid, rid + 3, rid + 3]:
            return f"attribute / getshape_x / getdim_x delegation gave {obs['attr']} for root {rid}"
        if obs["wrappers"] != tags:
            return f"all_wrapper_types = {obs['wrappers']}, the chain's layers are {tags}"
        for tg, ps in obs["oftype"]:
            if ps != [i for i, x in enumerate(tags) if x == tg]:
                return f"get_wrappers_of_type(tag {tg}) returned the layers at {ps} of {tags}"
        for tg, b in obs["hastype"]:
            if b != (tg in tags):
                return f"has_wrapper_type(tag {tg}) = {b} for layers {tags}"
    return None


# ---------------------------------------------------------------------------
# running the real code
# ---------------------------------------------------------------------------
_CLASSES = {}


def _classes():
    if _CLASSES:
        return _CLASSES
    import numpy as np
    import torch
    from kappadata.datasets.kd_concat_dataset import KDConcatDataset
    from kappadata.datasets.kd_dataset import KDDataset
    from kappadata.datasets.kd_subset import KDSubset
    from kappadata.datasets.kd_wrapper import KDWrapper

    class Root(KDDataset):
        def __init__(self, id, n, log):
            super().__init__()
            self.id = id
            self.marker = id
            self.x = [id * 1000 + j for j in range(n)]
            self.log = log

        def __len__(self):
            return len(self.x)

        def getitem_x(self, idx, ctx=None):
            return self.x[idx]

        def getshape_x(self):
            return (self.id + 3,)

        def dispose(self):
            self.log.append(self.id)

    class RootList(Root):
        def getall_x(self):
            return list(self.x)

    class RootNp(Root):
        def getall_x(self):
            return np.array(self.x, dtype=np.int64)

    class RootTorch(Root):
        def getall_x(self):
            return torch.tensor(self.x, dtype=torch.long)

    class SubA(KDSubset):
        pass

    class WrapA(KDWrapper):
        pass

    class WrapB(KDWrapper):
        pass

    _CLASSES.update(root={"none": Root, "list": RootList, "np": RootNp, "torch": RootTorch},
                    tag={0: KDSubset, 1: SubA, 2: KDWrapper, 3: WrapA, 4: WrapB},
                    cat=KDConcatDataset, np=np, torch=torch)
    return _CLASSES


def build(t, log):
    K = _classes()
    k = t["t"]
    if k == "root":
        return K["root"][t["pk"]](t["id"], t["n"], log)
    if k == "sub":
        inner = build(t["s"], log)
        idxs = t["idxs"]
        if t.get("ic") == "np":
            idxs = K["np"].array(idxs, dtype=K["np"].int64)
        elif t.get("ic") == "torch":
            idxs = K["torch"].tensor(idxs, dtype=K["torch"].long)
        return K["tag"][t["tag"]](inner, idxs)
    if k == "wrap":
        return K["tag"][t["tag"]](build(t["s"], log))
    return K["cat"]([build(p, log) for p in t["parts"]], balanced_sampling=t["bal"])


def _ints(v):
    K = _classes()
    if K["torch"].is_tensor(v) or isinstance(v, K["np"].ndarray):
        return [int(a) for a in v.tolist()]
    return [int(a) for a in v]


def _call(f):
    try:
        return f()
    except EXPECTED_ERRORS as e:
        return ("err", type(e).__name__)


def run_impl(case):
    K = _classes()
    from kappadata.utils.getall_as_tensor import getall, getall_as_list, getall_as_numpy, getall_as_tensor
    log = []
    try:
        s = build(case["stack"], log)
    except EXPECTED_ERRORS as e:
        return {"ctor": False, "ctor_err": type(e).__name__}
    obs = {"ctor": True}
    r = _call(lambda: len(s))
    obs["len"] = None if isinstance(r, tuple) else int(r)
    items = []
    for k in case["ks"]:
        r = _call(lambda: s.getitem_x(k))
        items.append(None if isinstance(r, tuple) else int(r))
    obs["items"] = items
    obs["hasall"] = hasattr(s, "getall_x")

    def bulk(f):
        try:
            v = f()
        except EXPECTED_ERRORS as e:
            return ["err", type(e).__name__, None]
        except AttributeError as e:
            return ["attr", str(e)[:80], None]
        return ["ok", isinstance(v, list), _ints(v)]
    obs["getall"] = bulk(lambda: s.getall_x()) if obs["hasall"] else ["missing", None, None]
    obs["util"] = bulk(lambda: getall(s, "x"))
    obs["util_list"] = bulk(lambda: getall_as_list(s, "x"))
    obs["util_numpy"] = bulk(lambda: getall_as_numpy(s, "x"))
    obs["util_tensor"] = bulk(lambda: getall_as_tensor(s, "x"))
    obs["root"] = s.root_dataset.id
    obs["attr"] = [s.marker, s.getshape_x()[0], s.getdim_x()]
    ws = s.all_wrappers
    tag_of = {cls: tg for tg, cls in K["tag"].items()}
    obs["wrappers"] = [tag_of[c] for c in s.all_wrapper_types]
    assert [type(w) for w in ws] == s.all_wrapper_types
    obs["oftype"] = [[tg, [next(i for i, w in enumerate(ws) if w is x) for x in s.get_wrappers_of_type(K["tag"][tg])]]
                     for tg in sorted(K["tag"])]
    obs["hastype"] = [[tg, bool(s.has_wrapper_type(K["tag"][tg]))] for tg in sorted(K["tag"])]
    s.dispose()
    obs["dispose"] = list(log)
    return obs


# ---------------------------------------------------------------------------
# rendering into Coq
# ---------------------------------------------------------------------------
def coq_stack(t):
    k = t["t"]
    if k == "root":
        return C("Root", t["id"], Nat(t["n"]), Raw({"none": "PNone", "list": "PList"}.get(t["pk"], "PArray")))
    if k == "sub":
        return C("Sub", t["tag"], list(t["idxs"]), coq_stack(t["s"]))
    if k == "wrap":
        return C("Wrap", t["tag"], coq_stack(t["s"]))
    return C("Cat", bool(t["bal"]), [coq_stack(p) for p in t["parts"]])


def _sample(v):
    return (v // 1000, v % 1000)


def _gres(g):
    if g[0] == "missing":
        return Raw("GMissing")
    if g[0] == "ok":
        return C("GOk", bool(g[1]), [_sample(v) for v in g[2]])
    return Raw("GErr")


def coq_applicable(case, obs):
    return "harness_exception" not in obs


def coq_case(case, obs):
    if not obs["ctor"]:
        o = Rec(o_ctor=False, o_len=Opt(None), o_items=[], o_hasall=False, o_getall=Raw("GErr"), o_util=Raw("GErr"),
                o_root=0, o_wrappers=[], o_oftype=[], o_hastype=[], o_dispose=[])
    else:
        o = Rec(o_ctor=True, o_len=Opt(obs["len"]),
                o_items=[Opt(None if v is None else _sample(v)) for v in obs["items"]],
                o_hasall=bool(obs["hasall"]), o_getall=_gres(obs["getall"]), o_util=_gres(obs["util"]),
                o_root=obs["root"], o_wrappers=list(obs["wrappers"]),
                o_oftype=[(tg, [Nat(p) for p in ps]) for tg, ps in obs["oftype"]],
                o_hastype=[(tg, bool(b)) for tg, b in obs["hastype"]],
                o_dispose=list(obs["dispose"]))
    return coq((coq_stack(case["stack"]), list(case["ks"]), o))


# ---------------------------------------------------------------------------
# generation
# ---------------------------------------------------------------------------
def gen_tree(rng, depth, ids, allow_bal, big=False):
    maxn = 12 if not big else 25
    if depth <= 0 or rng.random() < 0.12:
        n = rng.choice([0, 1, 1, 2, 3, 3, 4, 5, 7, rng.randint(0, maxn)])
        return {"t": "root", "id": next(ids), "n": n, "pk": rng.choice(["list", "list", "list", "np", "torch", "none"])}
    r = rng.random()
    if r < 0.40:
        under_bal = True
        s = gen_tree(rng, depth - 1, ids, under_bal, big)
        n = t_len(s)
        m = rng.choice([0, 1, 2, 3, 4, 5, 6, 8, 10])
        if n is None:      # balanced concat (possibly under wrappers) below
            total = sum((t_len(p) or 0) for p in _cat_of(s)["parts"]) if _cat_of(s) else 4
            idxs = [rng.randint(0, 3 * total + 2) for _ in range(m)]
            if rng.random() < 0.1 and idxs:
                idxs[rng.randrange(len(idxs))] = -rng.randint(1, 2 * total + 1)
        elif n == 0:
            idxs = [] if rng.random() < 0.85 else [rng.choice([0, -1])]
        else:
            idxs = [rng.randint(-n, n - 1) if rng.random() < 0.4 else rng.randint(0, n - 1) for _ in range(m)]
            if rng.random() < 0.3:
                idxs = sorted(set(i % n for i in idxs))
            if rng.random() < 0.06 and idxs:
                idxs[rng.randrange(len(idxs))] = rng.choice([n, -n - 1, n + 2])
        return {"t": "sub", "tag": rng.choice(SUB_TAGS), "idxs": idxs, "ic": rng.choice(["list", "list", "np", "torch"]), "s": s}
    if r < 0.65:
        return {"t": "wrap", "tag": rng.choice(WRAP_TAGS), "s": gen_tree(rng, depth - 1, ids, allow_bal, big)}
    bal = allow_bal and rng.random() < 0.5
    k = rng.choice([1, 2, 2, 3, 3, 4])
    inner_bal = rng.random() < 0.04     # not constructible: a part without len
    parts = [gen_tree(rng, depth - 1, ids, inner_bal, big) for _ in range(k)]
    if rng.random() < 0.01:
        parts = []
    return {"t": "cat", "bal": bal, "parts": parts}


def _cat_of(t):
    while t["t"] == "wrap":
        t = t["s"]
    return t if t["t"] == "cat" else None


def gen_case(rng, big=False):
    ids = itertools.count(rng.choice([0, 0, 1, 5]))
    depth = rng.choice([1, 2, 2, 3, 3, 4, 4, 5, 6])
    t = gen_tree(rng, depth, ids, True, big)
    n = t_len(t)
    if n is None:
        c = _cat_of(t)
        total = sum((t_len(p) or 0) for p in c["parts"]) if c else 3
        ks = list(range(0, 2 * total + 3)) + [-1, -2, -total, -total - 1]
    else:
        ks = list(range(-n, n)) + [n, -n - 1, n + 3]
    return {"stack": t, "ks": ks}


def gen_cases(rng, tier):
    n = 600 if tier == "quick" else 5000
    out = [gen_case(rng) for _ in range(n)]
    if tier == "thorough":
        out += [gen_case(rng, big=True) for _ in range(1500)]
    if os.environ.get("C02_PROBE_BALANCED_GETALL"):
        out.append({"probe": "balanced_getall", "ks": [0, 1, 2, 3],
                    "stack": {"t": "sub", "tag": 0, "ic": "list", "idxs": [0, 1, 2, 3],
                              "s": {"t": "cat", "bal": True, "parts": [
                                  {"t": "root", "id": 0, "n": 2, "pk": "list"},
                                  {"t": "root", "id": 1, "n": 3, "pk": "list"}]}}})
    return out


def search_cases(rng, tier):
    for i in range(30000):
        yield gen_case(rng, big=(i % 4 == 3))


def features(case, obs):
    t = case["stack"]
    yield "depth=%d" % t_depth(t)
    yield "top=" + t["t"] + ("_bal" if t.get("bal") else "")
    yield "valid=%s" % (o_den(t) is not None)
    yield "ctor=%s" % obs.get("ctor")
    yield "has_balanced=%s" % t_has(t, lambda n: n["t"] == "cat" and n["bal"])
    yield "has_cat=%s" % t_has(t, lambda n: n["t"] == "cat")
    yield "neg_subset_entry=%s" % t_has(t, lambda n: n["t"] == "sub" and any(i < 0 for i in n["idxs"]))
    yield "empty_part=%s" % t_has(t, lambda n: n["t"] == "cat" and any(t_len(p) == 0 for p in n["parts"]))
    yield "getall=" + (obs.get("getall") or ["n/a"])[0]
    yield "util=" + (obs.get("util") or ["n/a"])[0]


def nontrivial_key(case, obs):
    if not obs.get("ctor") or t_depth(case["stack"]) < 2 or not any(v is not None for v in obs.get("items", [])):
        return None
    return t_shape(case["stack"])


def shrink(case):
    t = case["stack"]

    def variants(t):
        k = t["t"]
        if k == "root":
            if t["n"] > 0:
                yield dict(t, n=t["n"] - 1)
            if t["pk"] != "list":
                yield dict(t, pk="list")
            return
        if k == "cat":
            for p in t["parts"]:
                yield p
            for i in range(len(t["parts"])):
                if len(t["parts"]) > 1:
                    yield dict(t, parts=t["parts"][:i] + t["parts"][i + 1:])
            for i, p in enumerate(t["parts"]):
                for v in variants(p):
                    yield dict(t, parts=t["parts"][:i] + [v] + t["parts"][i + 1:])
            return
        yield t["s"]
        if k == "sub":
            for i in range(len(t["idxs"])):
                yield dict(t, idxs=t["idxs"][:i] + t["idxs"][i + 1:])
            if t.get("ic") != "list":
                yield dict(t, ic="list")
        for v in variants(t["s"]):
            yield dict(t, s=v)

    for v in variants(t):
        n = t_len(v)
        ks = [k for k in case["ks"] if n is None or -n <= k < n]
        yield dict(case, stack=v, ks=ks)
    for i in range(len(case["ks"])):
        yield dict(case, ks=case["ks"][:i] + case["ks"][i + 1:])
