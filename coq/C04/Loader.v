(* the DataLoader's view: every batch the batch sampler cuts is fetched through
   the concat dataset and handed, whole, to the collator of the one dataset it
   was drawn from (_InterleavedConcatDataset.__getitem__ + _InterleavedCollator) *)
From Coq Require Import ZArith List Bool Lia.
Import ListNotations.
From KD Require Import C04.Model C04.Spec C04.Lists C04.Arith C04.Sides C04.Proofs C04.Corollaries C04.Batches.
Open Scope Z_scope.

(* the samplers yield valid indices of their own data source *)
Definition idx_ok (c : cfg) (mi : Z -> list Z) : Prop :=
  (forall e i, In i (mi e) -> 0 <= i < dsN c) /\
  Forall (fun sc => forall p j, In j (sidx sc p) -> 0 <= j < dslen sc) (sides c).

(* first global index of dataset [tag] (0 = main, S ci = config ci) *)
Definition base (c : cfg) (tag : nat) : Z := match tag with O => 0 | S ci => offset_of c ci end.

Definition resolves (c : cfg) (tag : nat) (i : Z) : Prop := concat_lookup c i = Some (tag, i - base c tag).

(* what the DataLoader must deliver for a batch drawn from dataset [tag]: that
   dataset's collator applied to exactly the samples the indices were drawn for *)
Definition expected (c : cfg) (tb : nat * list Z) : nat * list Z :=
  (fst tb, map (fun i => i - base c (fst tb)) (snd tb)).

Lemma fetch_ok c tag b : Forall (resolves c tag) b ->
  fetch c b = Some (map (fun i => (tag, i - base c tag)) b).
Proof.
  induction 1 as [|i b Hi Hb IH]; [reflexivity|]. cbn [fetch map]. rewrite Hi, IH. reflexivity.
Qed.

Lemma deliver_ok c tag b : b <> [] -> Forall (resolves c tag) b ->
  deliver c b = Some (expected c (tag, b)).
Proof.
  intros Hne H. unfold deliver. rewrite (fetch_ok c tag b H). unfold expected. cbn [fst snd].
  destruct b as [|i b]; [congruence|]. cbn [map collate].
  assert (forallb (fun it : nat * Z => Nat.eqb tag (fst it))
                  ((tag, i - base c tag) :: map (fun i0 => (tag, i0 - base c tag)) b) = true) as ->.
  { cbn [forallb fst]. rewrite Nat.eqb_refl. cbn [andb]. apply forallb_forall. intros x Hx.
    apply in_map_iff in Hx. destruct Hx as [i0 [<- _]]. apply Nat.eqb_refl. }
  cbn [map snd]. rewrite map_map. reflexivity.
Qed.

Lemma closed_loader c l tagged : Closed l tagged ->
  Forall (fun t => resolves c (fst t) (snd t)) (stream_tags l) ->
  loader_batches c (map snd tagged) = Some (map (expected c) tagged).
Proof.
  induction 1 as [|e l bs Hc IH|e l bs Hc IH|b l bs Hne Hc IH|ci b l bs Hne Hc IH]; intros HF.
  - reflexivity.
  - apply IH. exact HF.
  - apply IH. exact HF.
  - rewrite stream_tags_app, stream_tags_emit_main in HF. apply Forall_app in HF. destruct HF as [H1 H2].
    cbn [map snd loader_batches]. rewrite (deliver_ok c 0%nat b Hne), (IH H2); [reflexivity|].
    apply Forall_forall. intros i Hi. rewrite Forall_forall in H1.
    apply (H1 (0%nat, i)). apply in_map. exact Hi.
  - rewrite stream_tags_app, stream_tags_emit_side in HF. apply Forall_app in HF. destruct HF as [H1 H2].
    cbn [map snd loader_batches]. rewrite (deliver_ok c (S ci) b Hne), (IH H2); [reflexivity|].
    apply Forall_forall. intros i Hi. rewrite Forall_forall in H1.
    apply (H1 (S ci, i)). apply in_map. exact Hi.
Qed.

Section L.
  Variables (c : cfg) (mi : Z -> list Z).
  Hypothesis W : WF c mi.
  Hypothesis I : idx_ok c mi.

  Definition ev_ok (ev : event) : Prop :=
    match ev with
    | SetEpoch _ => True
    | IterStart _ => True
    | Main _ i => 0 <= i < dsN c
    | Side ci _ i => exists sc, nth_error (sides c) ci = Some sc /\ 0 <= i - offset_of c ci < dslen sc
    end.

  Lemma Forall_emit (mk : bool -> Z -> event) (P : event -> Prop) b :
    (forall f i, In i b -> P (mk f i)) -> Forall P (emit mk b).
  Proof.
    induction b as [|i b IH]; intros H; [constructor|]. destruct b as [|j b].
    - constructor; [apply H; now left|constructor].
    - rewrite emit_cons2. constructor; [apply H; now left|]. apply IH. intros f x Hx. apply H. now right.
  Qed.

  Lemma Forall_emit_chunks (mk : bool -> Z -> event) (P : event -> Prop) n l : (1 <= n)%nat ->
    (forall f i, In i l -> P (mk f i)) -> Forall P (flat_map (emit mk) (chunk n l)).
  Proof.
    intros Hn H.
    assert (forall b, In b (chunk n l) -> forall i, In i b -> In i l) as Hsub.
    { intros b Hb i Hi. rewrite <- (concat_chunk n l Hn). apply in_concat. eauto. }
    induction (chunk n l) as [|b bs IH]; [constructor|]. cbn [flat_map]. apply Forall_app. split.
    - apply Forall_emit. intros f i Hi. apply H. apply (Hsub b); [now left|exact Hi].
    - apply IH. intros b' Hb'. apply Hsub. now right.
  Qed.

  Lemma side_events_ok ci sc p : nth_error (sides c) ci = Some sc -> Forall ev_ok (side_events c ci sc p).
  Proof.
    intros Hn. unfold side_events.
    assert (In sc (sides c)) as Hin by (eapply nth_error_In; eauto).
    pose proof (wf_sides c mi W) as HF. rewrite Forall_forall in HF. destruct (HF sc Hin) as (_ & _ & _ & Hb & _).
    destruct I as [_ HI]. rewrite Forall_forall in HI. specialize (HI sc Hin).
    apply Forall_emit_chunks.
    - pose proof (wf_B c mi W). unfold or_default. destruct (sbs sc) eqn:E; [specialize (Hb _ eq_refl)|]; lia.
    - intros f i Hi. apply in_map_iff in Hi. destruct Hi as [j [<- Hj]]. cbn [ev_ok].
      exists sc. split; [exact Hn|]. specialize (HI p j Hj). lia.
  Qed.

  Lemma passes_ok k : forall l pre pn, sides c = pre ++ l -> Forall ev_ok (passes_from c (length pre) l pn k).
  Proof.
    induction l as [|sc l IH]; intros pre pn Hs; [constructor|]. destruct pn as [|p pn]; [constructor|].
    cbn [passes_from]. apply Forall_app. split.
    - destruct (due sc k); [|constructor]. apply side_events_ok.
      rewrite Hs, nth_error_app2, Nat.sub_diag by lia. reflexivity.
    - specialize (IH (pre ++ [sc]) pn). rewrite app_length in IH. simpl length in IH.
      rewrite Nat.add_1_r in IH. apply IH. rewrite <- app_assoc. exact Hs.
  Qed.

  Lemma update_ok e pn j : Forall ev_ok (u_events (upd_at c e (epoch_batches c mi e) pn j)).
  Proof.
    unfold upd_at. cbn [u_events]. apply Forall_app. split.
    - apply Forall_emit. intros f i Hi. cbn [ev_ok]. destruct I as [HI _]. apply (HI e).
      destruct (Nat.lt_ge_cases j (length (epoch_batches c mi e))) as [Hj|Hj].
      + assert (In i (concat (epoch_batches c mi e))) as Hc.
        { apply in_concat. exists (nth j (epoch_batches c mi e) []). split; [apply nth_In; exact Hj|exact Hi]. }
        rewrite (epoch_batches_concat c mi W e) in Hc.
        rewrite <- (firstn_skipn (Z.to_nat (spe c)) (mi e)). apply in_or_app. now left.
      + rewrite nth_overflow in Hi by lia. inversion Hi.
    - apply (passes_ok _ (sides c) []). reflexivity.
  Qed.

  Lemma epoch_events_ok e pn : Forall ev_ok (epoch_events c mi e pn).
  Proof.
    unfold epoch_events. constructor; [exact Logic.I|]. constructor; [exact Logic.I|].
    pose proof (take_until_incl (hit c) (epoch_updates c mi e pn)) as Hin.
    induction (fst (take_until (hit c) (epoch_updates c mi e pn))) as [|u us IH]; [constructor|].
    cbn [flat_map]. apply Forall_app. split.
    - assert (In u (epoch_updates c mi e pn)) as Hu by (apply Hin; now left).
      unfold epoch_updates in Hu. apply in_map_iff in Hu. destruct Hu as [j [<- _]]. apply update_ok.
    - apply IH. intros x Hx. apply Hin. now right.
  Qed.

  Lemma spec_run_ok : forall n e pn tr, spec_run c mi e pn n = Some tr -> Forall ev_ok tr.
  Proof.
    induction n as [|n IH]; intros e pn tr H; [discriminate|]. cbn [spec_run] in H.
    destruct (epoch_hits c mi e).
    - injection H as <-. apply epoch_events_ok.
    - destruct (spec_run c mi (e + 1) _ n) as [rest|] eqn:E; [|discriminate]. injection H as <-.
      change (Forall ev_ok (epoch_events c mi e pn ++ rest)).
      apply Forall_app. split; [apply epoch_events_ok|eapply IH; eauto].
  Qed.

  Lemma ev_ok_resolves tr : Forall ev_ok tr -> Forall (fun t => resolves c (fst t) (snd t)) (stream_tags tr).
  Proof.
    induction 1 as [|ev tr Hev _ IH]; [constructor|]. cbn [stream_tags].
    destruct ev as [e|e|f i|ci f i]; cbn [batch_indices_of]; [exact IH|exact IH| |]; constructor; auto; cbn [fst snd].
    - unfold resolves. cbn [base]. rewrite Z.sub_0_r. apply main_roundtrip. exact Hev.
    - destruct Hev as [sc [Hn Hr]]. unfold resolves. cbn [base].
      replace i with (offset_of c ci + (i - offset_of c ci)) at 1 by lia.
      now apply (offset_roundtrip c mi ci sc).
  Qed.

  (* C05: through the DataLoader, every batch goes - whole - to the collator of
     the dataset it was drawn from, with exactly the samples its indices were
     drawn for; the collator's single-dataset assertion never fires and no
     lookup fails *)
  Theorem loader_delivers n e pn tr : length pn = length (sides c) ->
    run c mi n (start_state c e pn) = Some tr ->
    exists tagged : list (nat * list Z),
      fst (batches (render tr)) = map snd tagged /\
      flat_map (fun tb => map (pair (fst tb)) (snd tb)) tagged = stream_tags tr /\
      loader_batches c (fst (batches (render tr))) = Some (map (expected c) tagged).
  Proof.
    intros Hpl H. unfold start_state in H. rewrite (model_eq_spec c mi W) in H by exact Hpl.
    destruct (spec_run_closed c mi W n e pn tr H) as [bs Hc]. exists bs.
    rewrite (batches_closed tr bs Hc). cbn [fst]. split; [reflexivity|]. split.
    - now apply closed_batches_unmixed.
    - apply (closed_loader c tr bs Hc). apply ev_ok_resolves. eapply spec_run_ok; eauto.
  Qed.
End L.
