(* C10 -- the property, stated on descriptors (for the theorems) and as a boolean on what the
   harness decodes from the real collator's output (for the correspondence run). *)
From Coq Require Import ZArith QArith Qabs Qround List Bool Permutation.
Import ListNotations.
From KD Require Import C10.Model.
Open Scope Z_scope.

(* ---------- contracts of the generator and of the shipped half sizes ---------- *)
Definition unit_ok (u : Q) : Prop := (0 <= u)%Q /\ (u < 1)%Q.
Definition beta_ok (x : Q) : Prop := (0 <= x)%Q /\ (x <= 1)%Q.
Definition draw_ok (d : draw) : Prop :=
  match d with
  | DUnit u => unit_ok u
  | DUnits us => Forall unit_ok us
  | DBeta _ x => beta_ok x
  | DBetas _ xs => Forall beta_ok xs
  | DInts hi xs => Forall (fun x => 0 <= x < hi) xs
  | DPerm p => Permutation p (seq 0 (length p))
  end.
Definition trace_ok (tr : trace) : Prop := Forall draw_ok tr.
Definition halves_ok (hv : list (Z * Z)) : Prop := Forall (fun '(a, b) => 0 <= a /\ 0 <= b) hv.
(* what the constructor enforces *)
Definition cfg_ok (c : cfg) : Prop :=
  (0 <= mixup_p c)%Q /\ (0 <= cutmix_p c)%Q /\ (total_p c == 1)%Q /\ (mixup_p c + cutmix_p c == 1)%Q
  /\ 0 < img_h c /\ 0 < img_w c.

(* ---------- retained pixel fraction, by counting pixels ---------- *)
Definition zrange (n : Z) : list Z := map Z.of_nat (seq 0 (Z.to_nat n)).
Definition in_box (b : box) (rc : Z * Z) : bool :=
  let '(t, l, bo, r) := b in let '(row, col) := rc in
  (t <=? row) && (row <? bo) && (l <=? col) && (col <? r).
Definition pixels (h w : Z) : list (Z * Z) := list_prod (zrange h) (zrange w).
(* number of pixels of an h x w image that the assignment x[..., top:bot, left:right] = ... overwrites *)
Definition pasted_pixels (h w : Z) (b : box) : Z := Z.of_nat (length (filter (in_box b) (pixels h w))).
Definition total_pixels (h w : Z) : Z := Z.of_nat (length (pixels h w)).

Definition retained_fraction (h w : Z) (d : img_desc) : Q :=
  match d with
  | Mix _ wt => wt
  | Cut _ b => inject_Z (total_pixels h w - pasted_pixels h w b) / inject_Z (total_pixels h w)
  | Keep => 1
  end.
Definition partner_of (d : img_desc) : option nat :=
  match d with Mix p _ => Some p | Cut p _ => Some p | Keep => None end.

Definition box_in_bounds (h w : Z) (b : box) : Prop :=
  let '(t, l, bo, r) := b in 0 <= t <= bo /\ bo <= h /\ 0 <= l <= r /\ r <= w.

(* the lambda the context reports for sample i *)
Definition lam_of (r : result) (i : nat) : Q :=
  match ctx_lambda r with [l] => l | ls => nth i ls 0%Q end.

(* partner prescribed by the shuffle mode *)
Definition mode_partner (m : shuffle_mode) (n : nat) (perm : list nat) (i : nat) : nat :=
  if Nat.eqb n 1 then 0%nat else
  match m with
  | Roll => ((i + n - 1) mod n)%nat
  | Flip => (n - 1 - i)%nat
  | Random => nth i perm 0%nat
  end.


(* ---------- how large the pasted box should be ---------- *)
(* The box is meant to cover the fraction 1 - lambda of the image: its half height / half width are
   floor(0.5 * sqrt(1 - lambda) * h) and floor(0.5 * sqrt(1 - lambda) * w), so that (before clipping at the
   border) the area is (2 hh)(2 wh) ~ (1 - lambda) h w.  Without square roots: hh is that integer iff *)
Definition half_ok (lam : Q) (h hh : Z) : Prop :=
  0 <= hh /\
  (inject_Z (4 * (hh * hh)) <= (1 - lam) * inject_Z (h * h))%Q /\
  ((1 - lam) * inject_Z (h * h) < inject_Z (4 * ((hh + 1) * (hh + 1))))%Q.
(* ... and executable: the integer square root of floor((1 - lambda) h^2 / 4) *)
Definition half_spec (lam : Q) (h : Z) : Z := Z.sqrt (Qfloor ((1 - lam) * inject_Z (h * h) * (1 # 4))).
(* area fraction of the unclipped box *)
Definition unclipped_fraction (h w hh wh : Z) : Q := inject_Z ((2 * hh) * (2 * wh)) / inject_Z (h * w).

(* The implementation evaluates the expression in floating point (float32 in lamb_mode batch, float64 in lamb_mode
   sample) on the lambda it HOLDS (the float32 rounding of the draw in lamb_mode batch).  Its result must be the exact
   value for the held lambda; one unit of slack is granted only where v = 0.5*sqrt(1-lambda)*h lies within [tol] of
   the integer at which the floor jumps.   v >= x  and  v <= x  for rational x, without square roots: *)
Definition v_ge (lam : Q) (h : Z) (x : Q) : bool :=
  Qle_bool x 0 || Qle_bool (4 * (x * x)) ((1 - lam) * inject_Z (h * h)).
Definition v_le (lam : Q) (h : Z) (x : Q) : bool :=
  Qle_bool 0 x && Qle_bool ((1 - lam) * inject_Z (h * h)) (4 * (x * x)).
Definition half_plausible (tol lam : Q) (h hh : Z) : bool :=
  let e := half_spec lam h in
  (hh =? e)
  || ((hh =? e + 1) && v_ge lam h (inject_Z (e + 1) - tol))
  || ((hh =? e - 1) && v_le lam h (inject_Z e + tol)).
Definition half_tol (f32 : bool) : Q := if f32 then 1 # 10000 else 1 # 1000000.
Fixpoint halves_plausible (f32 : bool) (h w : Z) (held : list Q) (hv : list (Z * Z)) : bool :=
  match held, hv with
  | [], [] => true
  | l :: held', (hh, wh) :: hv' =>
      Qle_bool 0 l && Qle_bool l 1 &&
      half_plausible (half_tol f32) l h hh && half_plausible (half_tol f32) l w wh && halves_plausible f32 h w held' hv'
  | _, _ => false
  end.

(* ---------- labels ---------- *)
Fixpoint mix_row (w : Q) (a b : list Q) : list Q :=
  match a, b with
  | x :: a', y :: b' => (w * x + (1 - w) * y)%Q :: mix_row w a' b'
  | _, _ => []
  end.
Fixpoint qsum (l : list Q) : Q := match l with [] => 0%Q | x :: r => (x + qsum r)%Q end.
(* the label row the descriptor (p, w) stands for, given the input label matrix Y *)
Definition render_label (Y : list (list Q)) (i : nat) (d : lab_desc) : list Q :=
  mix_row (snd d) (nth i Y []) (nth (fst d) Y []).

(* ====================================================================== *)
(* boolean spec on decoded observations                                   *)
(* ====================================================================== *)
(* id-encoding used by the harness: pixel of sample k = k where row+col is even, k*k where odd
   (a per-channel offset is removed by the harness) *)
Definition pat (k : nat) : Q * Q := (inject_Z (Z.of_nat k), inject_Z (Z.of_nat k * Z.of_nat k)).
Definition render_mix (i p : nat) (w : Q) : Q * Q :=
  let '(a1, a2) := pat i in let '(b1, b2) := pat p in
  ((w * a1 + (1 - w) * b1)%Q, (w * a2 + (1 - w) * b2)%Q).

Inductive img_obs :=
| OUniform (v1 v2 : Q)        (* all even pixels = v1, all odd pixels = v2 *)
| OPatch (q : nat) (b : box)  (* own pixels except a non-empty, non-full rectangle of sample q's pixels *)
| OOther.
Inductive obs_item := BX | BY | BRaw (v : list Z).

Record obs := {
  o_imgs : list img_obs;
  o_labs : option (list (list Q));
  o_lab_ndim : nat;                 (* number of dimensions of the returned label tensor *)
  o_apply : list bool;
  o_cutmix : list bool;
  o_lambda : list Q;
  o_batch : list obs_item;
  o_ctx : ctx_t;                    (* the context after the call, entries in dictionary order *)
  o_held : list Q                   (* the lambdas as the implementation held them when it computed the half sizes *)
}.

Definition close (tol a b : Q) : bool := Qle_bool (Qabs (a - b)) tol.
Definition tol_pix : Q := 1 # 500.       (* pixel values (<= 64) after float32 mixing *)
Definition tol_lab : Q := 1 # 100000.    (* label entries and lambdas (float32) *)
Definition close2 (a b : Q * Q) : bool := close tol_pix (fst a) (fst b) && close tol_pix (snd a) (snd b).
Fixpoint close_row (a b : list Q) : bool :=
  match a, b with
  | [], [] => true
  | x :: a', y :: b' => close tol_lab x y && close_row a' b'
  | _, _ => false
  end.
Definition box_eqb (a b : box) : bool :=
  let '(t, l, bo, r) := a in let '(t', l', bo', r') := b in (t =? t') && (l =? l') && (bo =? bo') && (r =? r').
Definition box_in_bounds_b (h w : Z) (b : box) : bool :=
  let '(t, l, bo, r) := b in (0 <=? t) && (t <=? bo) && (bo <=? h) && (0 <=? l) && (l <=? r) && (r <=? w).
Definition olam (o : obs) (i : nat) : Q := match o_lambda o with [l] => l | ls => nth i ls 0%Q end.
Definition ocut (o : obs) (i : nat) : bool := match o_cutmix o with [b] => b | bs => nth i bs false end.

(* does "partner p, weight w, kind cut?" explain what was observed for the image of sample i *)
Definition img_explained (h w : Z) (i p : nat) (wt : Q) (cut : bool) (o : img_obs) : bool :=
  match o with
  | OUniform v1 v2 =>
      if cut then (close2 (v1, v2) (pat i) && (Nat.eqb p i || close tol_lab wt 1))
                  || (close2 (v1, v2) (pat p) && close tol_lab wt 0)
      else close2 (v1, v2) (render_mix i p wt)
  | OPatch q b => cut && Nat.eqb q p && box_in_bounds_b h w b && close tol_lab (lamb_adjusted h w b) wt
  | OOther => false
  end.

Fixpoint first_perm (tr : trace) : list nat :=
  match tr with [] => [] | DPerm p :: _ => p | _ :: r => first_perm r end.

Fixpoint others_same (mode : list token) (i : list item) (o : list obs_item) : bool :=
  match mode, i, o with
  | [], [], [] => true
  | TX :: m, _ :: i', BX :: o' => others_same m i' o'
  | TClass :: m, _ :: i', BY :: o' => others_same m i' o'
  | TX :: _, _, _ | TClass :: _, _, _ => false
  | _ :: m, IOther a :: i', BRaw b :: o' =>
      (fix eq (x y : list Z) := match x, y with [], [] => true | u :: x', v :: y' => (u =? v) && eq x' y' | _, _ => false end) a b
      && others_same m i' o'
  | _, _, _ => false
  end.

Fixpoint zlist_eqb (x y : list Z) : bool :=
  match x, y with [], [] => true | u :: x', v :: y' => (u =? v) && zlist_eqb x' y' | _, _ => false end.
Definition is_user (k : ckey) : bool := match k with KUser _ => true | _ => false end.
(* the entries the dataset recorded are still there, bit for bit, in the same order, and nothing else was added under
   a user key *)
Fixpoint user_entries_same (a b : ctx_t) : bool :=
  match a, b with
  | [], [] => true
  | (KUser i, VRaw u) :: a', (KUser j, VRaw v) :: b' => Nat.eqb i j && zlist_eqb u v && user_entries_same a' b'
  | _, _ => false
  end.
Definition user_part (ctx : ctx_t) : ctx_t := filter (fun kv => is_user (fst kv)) ctx.

(* the property on one observed batch: for every sample there is a partner (the one the shuffle
   mode prescribes) such that image and label are both explained by that partner and by the
   lambda the context reports; label rows still sum to one where the inputs did; the label tensor keeps its
   number of dimensions; other items and the context entries recorded by the dataset are untouched; the half
   box sizes are the ones the formula prescribes for the lambda held *)
Definition spec_obs (c : cfg) (hv : list (Z * Z)) (Y : list (list Q)) (tr : trace) (batch : list item) (ctx : ctx_t)
           (o : obs) : bool :=
  let n := bsz c in
  let perm := first_perm tr in
  Nat.eqb (length (o_imgs o)) n &&
  forallb (fun i =>
    let p := mode_partner (shuf c) n perm i in
    let wt := olam o i in
    Qle_bool 0 wt && Qle_bool wt 1 &&
    img_explained (img_h c) (img_w c) i p wt (ocut o i) (nth i (o_imgs o) OOther) &&
    match o_labs o with
    | None => negb (has_item (tokens c) TClass)
    | Some rows =>
        let row := nth i rows [] in
        close_row row (mix_row wt (nth i Y []) (nth p Y [])) &&
        (negb (Qeq_bool (qsum (nth i Y [])) 1 && Qeq_bool (qsum (nth p Y [])) 1) || close tol_lab (qsum row) 1)
    end) (seq 0 n) &&
  match o_labs o with None => true | Some _ => Nat.eqb (o_lab_ndim o) (lab_ndim c) end &&
  others_same (tokens c) batch (o_batch o) &&
  user_entries_same (user_part ctx) (user_part (o_ctx o)) &&
  halves_plausible (match lamb_mode c with PerBatch => true | PerSample => false end) (img_h c) (img_w c) (o_held o) hv.
