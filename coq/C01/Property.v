(* C01 — the mode string decides exactly which items a sample has, and in which order (ModeWrapper).
   Statements only; proofs are in Proofs.v.  Quantification: every list of mode items (any length, order,
   duplicates, 'index', 'ctx.<key>'), every set of declared fused groups that passes the constructor's two
   assertions and has no empty group ([groups_ok]), every stack (abstracted into what it answers, loaders are
   arbitrary functions of (item, index, ctx) unless a theorem says "pure"), every dataset length, every index. *)
From Coq Require Import ZArith List Bool String.
Import ListNotations.
From KD Require Import C01.Model C01.Spec C01.Check C01.Proofs C01.PlanEq C01.Bounds C01.Iter C01.Live.

(* ---------------------------------------------------------------------------------------------------------- *)
(* the constructor: which loader calls are planned and which positions they fill                              *)
(* ---------------------------------------------------------------------------------------------------------- *)
(* The fused-group detection never fails, every planned call names the loader of the item(s) standing at the
   positions it fills (joint loader: the j-th filled position holds the group's j-th member), and every position
   of the mode is filled in exactly one of three ways: by its own loader, by one joint load, or by its own loader
   first and one joint load LAST (so the joint value is what stays). *)
Theorem fuse_positions_partition : forall groups items, groups_ok groups -> groups <> [] ->
  exists plan, fuse groups items = Some plan /\ plan_ok groups items plan.
Proof. exact fuse_plan_ok. Qed.
Print Assumptions fuse_positions_partition.

(* a declared group all of whose members stand in the mode is loaded jointly, wherever its members stand *)
Theorem fuse_group_loaded : forall groups items g plan,
  groups_ok groups -> In g groups -> (forall op, In op g -> In op items) ->
  fuse groups items = Some plan ->
  exists idxs, In (String.concat "" g, Fused idxs) plan /\
               Forall2 (fun idx op => nth_error items idx = Some op) idxs g.
Proof. exact fuse_group_loaded_lemma. Qed.
Print Assumptions fuse_group_loaded.

(* ---------------------------------------------------------------------------------------------------------- *)
(* __getitem__                                                                                                *)
(* ---------------------------------------------------------------------------------------------------------- *)
(* The model of __getitem__ (loader loop + scatter loop + tuple/bare + ctx) IS the specification's reading
   "run the planned calls left to right on one fresh ctx; position p holds what the last call filling p
   delivered", for the plan the constructor built, which is a good plan. *)
Theorem getitem_matches_plan : forall value vint proj (st : stack value) items rc m,
  groups_ok (s_fused_ops value st) -> init_items value st items rc = inl m ->
  plan_ok (s_fused_ops value st) items (eff_plan items (m_plan m)) /\
  forall idx, (- s_len value st <= idx)%Z ->
              getitem_int value vint proj st m idx =
              sample_with_plan value vint proj st items (eff_plan items (m_plan m)) rc (norm_idx value st idx).
Proof. exact getitem_matches_plan_b. Qed.
Print Assumptions getitem_matches_plan.

(* The constructor's plan IS the plan by occurrence counting of Spec.v: the k-th complete set of a declared group is
   loaded jointly where the k-th occurrence of the group's first member stands and takes the k-th occurrence of every
   member; a member standing before that place is also loaded on its own first; everything else is its own loader. *)
Theorem fuse_is_spec_plan : forall groups items, groups_ok groups -> groups <> [] ->
  fuse groups items = Some (spec_plan groups items).
Proof. exact fuse_is_spec_plan_lemma. Qed.
Print Assumptions fuse_is_spec_plan.

(* model = specification: what __getitem__ returns for an int index is Spec.spec_sample (the function the
   correspondence check evaluates against the implementation's output) *)
Theorem getitem_is_spec_sample : forall value vint proj (st : stack value) items rc m,
  groups_ok (s_fused_ops value st) -> init_items value st items rc = inl m ->
  forall idx, (- s_len value st <= idx)%Z ->
    getitem_int value vint proj st m idx = spec_sample value vint proj st items rc (norm_idx value st idx).
Proof. exact getitem_is_spec_sample_b. Qed.
Print Assumptions getitem_is_spec_sample.

(* Position by position: a returned sample has one component per mode item and component p is delivered by a
   loader call of THIS sample -- made on the ctx left by the earlier calls of this sample, starting from the fresh
   one -- which is the loader of the item at p, or the joint loader of a declared group whose j-th member is the
   item at p (then: component j of the joint value). *)
Theorem getitem_positions : forall value vint proj (st : stack value) items rc m idx o,
  groups_ok (s_fused_ops value st) -> init_items value st items rc = inl m ->
  res_out value (getitem_int value vint proj st m idx) = Some o ->
  let plan := eff_plan items (m_plan m) in
  plan_ok (s_fused_ops value st) items plan /\
  List.length (out_list o) = List.length items /\
  forall p, (p < List.length items)%nat ->
    delivered value vint proj st items plan (norm_idx value st idx)
              (if spec_propagate value st (map fst plan) rc then Some [] else None) p (nth p (out_list o) None).
Proof. exact getitem_positions_b. Qed.
Print Assumptions getitem_positions.

(* For loaders that are functions of (item, index) and joint loaders whose j-th component is the j-th member's own
   item: 'index' gives the (normalised) index, a named item gives value_of item index whatever the order of the
   mode and whether or not it was loaded jointly, 'ctx.<key>' gives what the calls made so far for this sample --
   starting from the EMPTY ctx -- recorded under key. *)
Theorem getitem_positions_pure : forall value vint proj (st : stack value) items rc m value_of upd idx o,
  groups_ok (s_fused_ops value st) -> groups_named (s_fused_ops value st) ->
  pure_loaders value st value_of upd -> joint_consistent value proj st value_of ->
  init_items value st items rc = inl m ->
  res_out value (getitem_int value vint proj st m idx) = Some o ->
  forall p s, nth_error items p = Some s ->
    match classify s with
    | Index => nth p (out_list o) None = Some (vint (norm_idx value st idx))
    | Named n => nth p (out_list o) None = Some (value_of n (norm_idx value st idx))
    | Ctx key => exists t vs d v,
        thread value vint st (firstn t (m_names m)) (norm_idx value st idx) (Some []) = Some (vs, Some d) /\
        lookup value key d = Some v /\ nth p (out_list o) None = Some v
    end.
Proof. exact getitem_positions_pure_b. Qed.
Print Assumptions getitem_positions_pure.

(* bare value for one item, tuple for several, ctx appended iff requested; the only failures are a 'ctx.<key>' item whose
   key is not (yet) recorded (KeyError) and an index below -len (IndexError) *)
Theorem getitem_shape : forall value vint proj (st : stack value) items rc m idx,
  groups_ok (s_fused_ops value st) -> init_items value st items rc = inl m ->
  match getitem_int value vint proj st m idx with
  | RErr => exists s key, In s (m_names m) /\ classify s = Ctx key
  | RItems o => rc = false /\ List.length (out_list o) = List.length items /\
                is_bare o = Nat.eqb (List.length items) 1
  | RItemsCtx o c => rc = true /\ List.length (out_list o) = List.length items /\
                     is_bare o = Nat.eqb (List.length items) 1
  | RIndexErr => (idx < 0 /\ s_len value st + idx < 0)%Z
  end.
Proof. exact getitem_shape_b. Qed.
Print Assumptions getitem_shape.

(* The returned ctx is a dict and every key in it was recorded by a loader call of this access for this index
   (W item index = the keys loader `item` may record for `index`): nothing of another sample, nothing of an
   earlier access. *)
Theorem ctx_fresh : forall value vint proj (st : stack value) W items rc m idx o c,
  writes_within value st W -> init_items value st items rc = inl m ->
  getitem_int value vint proj st m idx = RItemsCtx o c ->
  exists d, c = Some d /\ forall k, In k (map fst d) ->
    exists s, In (Named s) (m_fns m) /\ In k (W s (norm_idx value st idx)).
Proof. exact ctx_fresh_b. Qed.
Print Assumptions ctx_fresh.

(* the k-th access of a history returns what that access alone returns (no state survives a call; the harness
   checks on real histories that the implementation indeed keeps none) *)
Theorem history_independent : forall value vint proj (st : stack value) m h k i,
  nth_error h k = Some i -> nth_error (history value vint proj st m h) k = Some (getitem value vint proj st m i).
Proof. exact history_independent_lemma. Qed.
Print Assumptions history_independent.

(* ---------------------------------------------------------------------------------------------------------- *)
(* Python sequence semantics: negative index, slice, index list, iteration, len                               *)
(* ---------------------------------------------------------------------------------------------------------- *)
Theorem getitem_negative : forall value vint proj (st : stack value) m i, (- s_len value st <= i < 0)%Z ->
  getitem_int value vint proj st m i = getitem_int value vint proj st m (py_index (s_len value st) i) /\
  (0 <= py_index (s_len value st) i < s_len value st)%Z.
Proof. exact getitem_negative_lemma. Qed.
Print Assumptions getitem_negative.

(* an index below -len is an IndexError (and nothing else is: an index >= len is not checked by the ModeWrapper -- an
   endless balanced KDConcatDataset has no len -- but handed to the loaders of the stack) *)
Theorem getitem_below_range : forall value vint proj (st : stack value) m i, (0 <= s_len value st)%Z ->
  (getitem_int value vint proj st m i = RIndexErr <-> (i < - s_len value st)%Z).
Proof. exact getitem_below_range_lemma. Qed.
Print Assumptions getitem_below_range.

(* iteration and slices never run into that IndexError: every index they use is in range *)
Theorem iter_no_indexerror : forall value vint proj (st : stack value) m, ~ In RIndexErr (iter value vint proj st m).
Proof. exact iter_no_indexerr. Qed.
Print Assumptions iter_no_indexerror.

Theorem slice_no_indexerror : forall value vint proj (st : stack value) m a b s rs, (0 <= s_len value st)%Z ->
  getitem value vint proj st m (ISlice a b s) = GMany rs -> ~ In RIndexErr rs.
Proof. exact slice_no_indexerr. Qed.
Print Assumptions slice_no_indexerror.

(* range(len)[slice]: the closed formulas of the model select exactly the indices the language reference describes
   (start, start+step, ... before stop, bounds clipped relative to the end), all of them valid *)
Theorem slice_indices_are_python : forall (len : Z) (a b s : option Z), (0 <= len)%Z ->
  match slice_range len a b s with
  | None => s = Some 0%Z
  | Some l => py_slice_spec len a b s l /\ Forall (fun x => (0 <= x < len)%Z) l
  end.
Proof. exact slice_spec_lemma. Qed.
Print Assumptions slice_indices_are_python.

Theorem getitem_slice : forall value vint proj (st : stack value) m a b s, (0 <= s_len value st)%Z ->
  match getitem value vint proj st m (ISlice a b s) with
  | GValueError => s = Some 0%Z
  | GMany rs => exists l, py_slice_spec (s_len value st) a b s l /\
                          Forall (fun x => (0 <= x < s_len value st)%Z) l /\
                          rs = map (getitem_int value vint proj st m) l
  | GOne _ => False
  end.
Proof. exact getitem_slice_lemma. Qed.
Print Assumptions getitem_slice.

Theorem getitem_list : forall value vint proj (st : stack value) m l,
  getitem value vint proj st m (IList l) = GMany (map (fun i => getitem_int value vint proj st m i) l).
Proof. exact getitem_list_lemma. Qed.
Print Assumptions getitem_list.

(* iteration yields len samples, the k-th is sample k, and list(iter(ds)) == ds[:] *)
Theorem iter_len : forall value vint proj (st : stack value) m, (0 <= s_len value st)%Z ->
  List.length (iter value vint proj st m) = Z.to_nat (mw_len value st) /\
  (forall k, (k < Z.to_nat (s_len value st))%nat ->
     nth_error (iter value vint proj st m) k = Some (getitem_int value vint proj st m (Z.of_nat k))) /\
  getitem value vint proj st m (ISlice None None None) = GMany (iter value vint proj st m).
Proof. exact iter_len_lemma. Qed.
Print Assumptions iter_len.

(* ---------------------------------------------------------------------------------------------------------- *)
(* 'ctx.<key>': the key is EXACTLY what follows the four characters "ctx."                                    *)
(* ---------------------------------------------------------------------------------------------------------- *)
(* whatever the key is made of -- leading c / t / x / dots, "ctx" itself, another "ctx." prefix, an item name, the
   empty string: nothing of it is stripped, nothing is added *)
Theorem ctx_item_key_is_exact_suffix : forall key, classify ("ctx." ++ key) = Ctx key.
Proof. exact classify_ctx_suffix. Qed.
Print Assumptions ctx_item_key_is_exact_suffix.

(* and only items of that form are read from the ctx; two items read the same key only if they are the same item *)
Theorem ctx_item_only_with_prefix : forall s key, classify s = Ctx key -> s = ("ctx." ++ key)%string.
Proof. exact classify_ctx_only_prefixed. Qed.
Print Assumptions ctx_item_only_with_prefix.

Theorem ctx_item_keys_distinct : forall k1 k2, classify ("ctx." ++ k1) = classify ("ctx." ++ k2) -> k1 = k2.
Proof. exact classify_ctx_injective. Qed.
Print Assumptions ctx_item_keys_distinct.

(* the composed getitem function of 'ctx.<key>' returns ctx[key] -- the entry recorded under exactly that key, KeyError
   when there is none (whatever other keys, e.g. suffixes or prefixes of it, are recorded) -- and leaves the ctx alone *)
Theorem ctx_item_reads_exact_key : forall value vint (st : stack value) key idx d,
  call value vint st (classify ("ctx." ++ key)) idx (Some d) =
  match lookup value key d with Some v => Some (v, Some d) | None => None end.
Proof. exact call_ctx_exact. Qed.
Print Assumptions ctx_item_reads_exact_key.

(* ---------------------------------------------------------------------------------------------------------- *)
(* iterator objects: every iter(mw) is a new iterator owning its position                                     *)
(* ---------------------------------------------------------------------------------------------------------- *)
(* A history of steps on ONE ModeWrapper (indexing, len, iter() creating iterator k, next(it_k), for-loop over it_k).
   The steps concerning iterator k return, inside any history, what they return when run alone: other iterators being
   created / advanced / exhausted, indexing and len() in between change nothing (and k's steps change nothing for them). *)
Theorem iterators_project : forall value vint proj (st : stack value) m ops f k,
  on_k value k ops (fst (run_ops value vint proj st m f ops)) =
  fst (run_ops value vint proj st m f (filter (touches k) ops)).
Proof. exact iterators_project_lemma. Qed.
Print Assumptions iterators_project.

(* Any interleaving: iterator k is created once and then advanced n times with next(), while anything else happens in
   between.  Its j-th next() returns sample j of ONE pass over the dataset (0, 1, ..., len-1; the pass ends with the
   first sample that raises), StopIteration (None) after the end of the pass. *)
Theorem iterators_independent : forall value vint proj (st : stack value) m ops f k n,
  filter (touches k) ops = OpIter k :: repeat (OpNext k) n ->
  on_k value k ops (fst (run_ops value vint proj st m f ops)) =
  PIter :: map (fun j => PNext (nth_error (stream value vint proj st m) j)) (seq 0 n).
Proof. exact iterators_independent_lemma. Qed.
Print Assumptions iterators_independent.

(* one pass = what the model's __iter__ yields (self[0], ..., self[len-1]), cut after the first failing sample *)
Theorem iterator_pass_is_iter : forall value vint proj (st : stack value) m,
  stream value vint proj st m = cut_at_err value (iter value vint proj st m).
Proof. exact stream_is_iter. Qed.
Print Assumptions iterator_pass_is_iter.

(* peek, then consume: after j next() calls a for-loop / list(it) over the SAME iterator gets the rest of the pass --
   no sample twice, none missing (iter(it) is it: the position is kept) *)
Theorem iterator_resumes_after_peek : forall value vint proj (st : stack value) m ops f k j,
  filter (touches k) ops = OpIter k :: repeat (OpNext k) j ++ [OpRest k] ->
  on_k value k ops (fst (run_ops value vint proj st m f ops)) =
  PIter :: map (fun i => PNext (nth_error (stream value vint proj st m) i)) (seq 0 j)
        ++ [PRest (skipn j (stream value vint proj st m))].
Proof. exact peek_then_rest_lemma. Qed.
Print Assumptions iterator_resumes_after_peek.

(* The iterator states of the model are not needed to say what a history returns: every step on an iterator is
   determined by the steps before it, by walking back to the creation of that iterator and counting the samples it
   has handed out since (Spec.next_due / rest_due; this stateless reading is what the correspondence check evaluates
   against the implementation's output). *)
Theorem iterators_by_counting : forall value vint proj (st : stack value) m ops,
  fst (run_ops value vint proj st m no_its ops) = spec_ops value vint proj st m [] ops.
Proof. exact model_is_counting_spec_lemma. Qed.
Print Assumptions iterators_by_counting.

(* ---------------------------------------------------------------------------------------------------------- *)
(* static helpers on a collated batch                                                                         *)
(* ---------------------------------------------------------------------------------------------------------- *)
Theorem has_item_is_membership : forall items it, has_item items it = true <-> In it items.
Proof. exact has_item_In. Qed.
Print Assumptions has_item_is_membership.

Theorem has_item_iff_index : forall items it, has_item items it = true <-> exists i, get_item_index items it = Some i.
Proof. exact has_item_index. Qed.
Print Assumptions has_item_iff_index.

Theorem get_item_index_is_first : forall items it i, get_item_index items it = Some i ->
  nth_error items i = Some it /\ forall j, (j < i)%nat -> nth_error items j <> Some it.
Proof. exact get_item_index_first. Qed.
Print Assumptions get_item_index_is_first.

(* "single item" is decided by the MODE (len(mode.split(" ")) == 1), not by the type of the batch: in a single-item
   mode the batch IS the item -- a bare object, or a list / tuple of views -- so get_item hands back the batch itself
   and set_item the value, for ANY batch; asking for another item than the mode's is an AssertionError *)
Theorem single_item_mode_decided_by_mode : forall B s it (b : batch B) v,
  get_item [s] it b = (if String.eqb s it then Some b else None) /\
  set_item [s] it b v = (if String.eqb s it then Some (BBare v) else None).
Proof. exact single_item_mode. Qed.
Print Assumptions single_item_mode_decided_by_mode.

Theorem set_get_item_single : forall B s it (b : batch B) v b',
  set_item [s] it b v = Some b' -> s = it /\ b' = BBare v /\ get_item [s] it b' = Some (BBare v).
Proof. exact set_item_single. Qed.
Print Assumptions set_get_item_single.

(* in a several-item mode the batch must be a list / tuple (AssertionError otherwise) *)
Theorem several_item_mode_needs_sequence : forall B items it (x v : B), List.length items <> 1%nat ->
  get_item items it (BBare x) = None /\ set_item items it (BBare x) v = None.
Proof. exact several_items_need_sequence. Qed.
Print Assumptions several_item_mode_needs_sequence.

(* ... and set_item replaces exactly the item's position (length kept); get_item reads the new value there and the
   old ones elsewhere *)
Theorem set_get_item_tuple : forall B items it (l : list B) v b', List.length items <> 1%nat ->
  set_item items it (BTuple l) v = Some b' ->
  exists i l', get_item_index items it = Some i /\ b' = BTuple l' /\ List.length l' = List.length l /\
    (forall q, nth_error l' q = if Nat.eqb q i then option_map (fun _ => v) (nth_error l q) else nth_error l q) /\
    ((i < List.length l)%nat -> get_item items it b' = Some (BBare v)) /\
    (forall it' j, get_item_index items it' = Some j -> j <> i -> get_item items it' b' = get_item items it' (BTuple l)).
Proof. exact set_item_tuple. Qed.
Print Assumptions set_get_item_tuple.

(* TorchWrapper exposes component k of the wrapped dataset's tuple as item mode[k] (first occurrence) *)
Theorem torch_getitem_is_component : forall value tmode (ds : Z -> list value) it idx v,
  torch_getitem value tmode ds it idx = Some v <->
  exists k, get_item_index tmode it = Some k /\ nth_error (ds idx) k = Some v.
Proof. exact torch_getitem_lemma. Qed.
Print Assumptions torch_getitem_is_component.

(* mode.split(" ") recovers the items a mode string was joined from *)
Theorem split_join : forall items, items <> [] -> forallb no_space items = true ->
  split_space (join_space items) = items.
Proof. exact split_join_lemma. Qed.
Print Assumptions split_join.

(* whitespace: split(" ") yields one item more than there are spaces -- a double, leading or trailing space is an
   EMPTY item, i.e. the loader name getitem_ ... *)
Theorem split_one_item_per_space : forall s, List.length (split_space s) = S (count_spaces s).
Proof. exact split_space_length. Qed.
Print Assumptions split_one_item_per_space.

(* ... and (no groups declared) the constructor rejects every mode with an item the stack cannot load *)
Theorem mode_with_unloadable_item_rejected : forall value (st : stack value) items rc s n,
  s_fused_ops value st = [] -> In s items -> classify s = Named n -> s_has value st n = false ->
  init_items value st items rc = inr 3%nat.
Proof. exact init_rejects_unloadable. Qed.
Print Assumptions mode_with_unloadable_item_rejected.

(* ---------------------------------------------------------------------------------------------------------- *)
(* non-vacuity                                                                                                *)
(* ---------------------------------------------------------------------------------------------------------- *)
(* mode "x index class ctx.k" over a stack declaring [x, class] as jointly loaded: premises are satisfiable *)
Example nv_groups_ok : groups_ok (s_fused_ops value ex_stack) /\ s_fused_ops value ex_stack <> [].
Proof. split; [exact ex_groups_ok | discriminate]. Qed.
Example nv_groups_named : groups_named (s_fused_ops value ex_stack).
Proof. exact ex_groups_named. Qed.
Example nv_pure : pure_loaders value ex_stack ex_value_of ex_upd /\ joint_consistent value cproj ex_stack ex_value_of.
Proof. split; [exact ex_pure | exact ex_joint]. Qed.
Example nv_writes : writes_within value ex_stack (fun _ _ => ["k"%string]).
Proof. exact ex_writes. Qed.
Example nv_plan : fuse [["x"; "class"]]%string ["class"; "x"; "class"]%string
                  = Some [("class"%string, Plain 0%nat); ("xclass"%string, Fused [1; 0]%nat); ("class"%string, Plain 2%nat)].
Proof. vm_compute. reflexivity. Qed.
Example nv_spec_plan : spec_plan [["x"; "class"]]%string ["class"; "x"; "class"]%string
                  = [("class"%string, Plain 0%nat); ("xclass"%string, Fused [1; 0]%nat); ("class"%string, Plain 2%nat)].
Proof. vm_compute. reflexivity. Qed.
Example nv_group_present : forall op, In op ["x"; "class"]%string -> In op ex_items.
Proof. intros op [<-|[<-|[]]]; simpl; auto. Qed.
Example nv_sample :
  match init value ex_stack "x index class ctx.k" true with
  | inl m => getitem_int value VInt cproj ex_stack m (-1)
  | inr _ => RErr
  end = RItemsCtx (Tuple [Some (Tup [VStr "x"; VInt 2]); Some (VInt 2); Some (Tup [VStr "class"; VInt 2]);
                          Some (VStr "xclass")])
                  (Some [("k"%string, VStr "xclass")]).
Proof. vm_compute. reflexivity. Qed.
Example nv_init : exists m, init_items value ex_stack ex_items true = inl m.
Proof. vm_compute. eexists. reflexivity. Qed.
Example nv_negative : (- s_len value ex_stack <= -1 < 0)%Z /\ (0 <= s_len value ex_stack)%Z.
Proof. vm_compute. repeat split; discriminate. Qed.
Example nv_below_range :
  match init value ex_stack "x index" false with
  | inl m => (getitem_int value VInt cproj ex_stack m (- s_len value ex_stack - 1),
              getitem_int value VInt cproj ex_stack m (- s_len value ex_stack))
  | inr _ => (RErr, RErr)
  end = (RIndexErr, RItems (Tuple [Some (Tup [VStr "x"; VInt 0]); Some (VInt 0)])).
Proof. vm_compute. reflexivity. Qed.
Example nv_slice : slice_range 5 (Some (-1)%Z) None (Some (-2)%Z) = Some [4; 2; 0]%Z /\
                   slice_range 5 None None (Some 0%Z) = None.
Proof. vm_compute. split; reflexivity. Qed.
Example nv_history : nth_error [IInt 0; IList [1; -1]%Z; ISlice None None None] 1 = Some (IList [1; -1]%Z).
Proof. reflexivity. Qed.
Example nv_set_item :
  set_item ["x"; "y"]%string "y" (BTuple [VInt 1; VInt 2]) (VInt 9) = Some (BTuple [VInt 1; VInt 9]) /\
  set_item ["x"]%string "x" (BBare (VInt 1)) (VInt 9) = Some (BBare (VInt 9)) /\
  get_item_index ["x"; "y"; "x"]%string "x" = Some 0%nat /\
  (* a multi-view item [V0; V1] in single-item mode "x" is the item, not a batch of two items *)
  get_item ["x"]%string "x" (BTuple [VInt 1; VInt 2]) = Some (BTuple [VInt 1; VInt 2]) /\
  set_item ["x"]%string "x" (BTuple [VInt 1; VInt 2]) (VInt 9) = Some (BBare (VInt 9)) /\
  get_item ["x"]%string "y" (BTuple [VInt 1; VInt 2]) = None /\
  get_item ["x"; "y"]%string "y" (BTuple [VInt 1; Tup [VInt 2; VInt 3]]) = Some (BBare (Tup [VInt 2; VInt 3])) /\
  get_item ["x"; "y"]%string "y" (BBare (VInt 1)) = None /\ List.length ["x"; "y"]%string <> 1%nat.
Proof. vm_compute. repeat split; try reflexivity. discriminate. Qed.
Example nv_whitespace : split_space "x  class " = ["x"; ""; "class"; ""]%string /\ classify "" = Named "" /\
                        split_space "" = [""]%string.
Proof. vm_compute. repeat split; reflexivity. Qed.
Example nv_split : split_space "x index class" = ["x"; "index"; "class"]%string /\
                   forallb no_space ["x"; "index"; "class"]%string = true.
Proof. vm_compute. split; reflexivity. Qed.

(* 'ctx.<key>' keys from the whole alphabet *)
Example nv_ctx_keys :
  map classify ["ctx.tag"; "ctx.ctx"; "ctx.ctx.ctx"; "ctx.x"; "ctx..foo"; "ctx.two_random_crop"; "ctx."; "ctx"; "ctxx"; "index"]%string
  = [Ctx "tag"; Ctx "ctx"; Ctx "ctx.ctx"; Ctx "x"; Ctx ".foo"; Ctx "two_random_crop"; Ctx ""; Named "ctx"; Named "ctxx"; Index]%string.
Proof. vm_compute. reflexivity. Qed.
(* zip(mw, mw) / a second iterator while the first is half-way / peek + list(it), with indexing and len in between *)
Definition nv_ops : list op :=
  [OpIter 0; OpIter 1; OpNext 0; OpNext 1; OpGet (IInt 2); OpNext 0; OpLen; OpRest 1; OpNext 0; OpIter 1; OpNext 1; OpNext 0].
Example nv_iter_premise :
  filter (touches 0) nv_ops = OpIter 0 :: repeat (OpNext 0) 4 /\
  filter (touches 1) (firstn 8 nv_ops) = OpIter 1 :: repeat (OpNext 1) 1 ++ [OpRest 1].
Proof. vm_compute. split; reflexivity. Qed.
Example nv_iter_run :
  match init value ex_stack "index" false with
  | inl m => map (kind_of value) (fst (run_ops value VInt cproj ex_stack m no_its nv_ops))
  | inr _ => []
  end = [0; 0; 0; 0; 0; 0; 0; 0; 0; 0; 0; 6]%nat /\ s_len value ex_stack = 3%Z.
Proof. vm_compute. split; reflexivity. Qed.

(* ---------------------------------------------------------------------------------------------------------- *)
(* the stack below the wrapper is a live object                                                                *)
(* ---------------------------------------------------------------------------------------------------------- *)
(* What the constructor reads of the stack: the declared groups, the ctx requirement and which loaders exist --
   NOT its length, NOT its index maps, NOT what the loaders return. *)
Theorem init_reads_only : forall value (st st' : stack value) mode rc,
  s_fused_ops value st = s_fused_ops value st' -> s_req_ctx value st = s_req_ctx value st' ->
  (forall s, s_has_type value st s = s_has_type value st' s) -> (forall s, s_has value st s = s_has value st' s) ->
  init value st mode rc = init value st' mode rc.
Proof. exact init_reads_only_lemma. Qed.
Print Assumptions init_reads_only.

(* The stack is an argument of every access: after the stack was resized / re-mapped (st -> st': any other length,
   any other loader results), the wrapper m built BEFORE the change is the wrapper the constructor builds now, len is
   the CURRENT length, and every history of accesses / iterator steps and the iteration on the current stack are those
   of a wrapper built now (all the sequence-semantics theorems above then speak about s_len st').  The harness
   checks on real histories with a mutation step that the implementation indeed keeps no length / map / bound
   accessor of the old stack. *)
Theorem access_uses_current_stack : forall value vint proj (st st' : stack value) mode rc m,
  s_fused_ops value st = s_fused_ops value st' -> s_req_ctx value st = s_req_ctx value st' ->
  (forall s, s_has_type value st s = s_has_type value st' s) -> (forall s, s_has value st s = s_has value st' s) ->
  init value st mode rc = inl m ->
  init value st' mode rc = inl m /\
  mw_len value st' = s_len value st' /\
  (forall f ops, exists m', init value st' mode rc = inl m' /\
     run_ops value vint proj st' m f ops = run_ops value vint proj st' m' f ops) /\
  (exists m', init value st' mode rc = inl m' /\ iter value vint proj st' m = iter value vint proj st' m').
Proof. exact access_uses_current_stack_lemma. Qed.
Print Assumptions access_uses_current_stack.

(* non-vacuity: the example stack grown from 3 to 5 samples with other loader results; the wrapper built on the
   3-sample stack iterates over 5 samples afterwards *)
Definition ex_stack_grown : stack value :=
  {| s_len := 5%Z; s_fused_ops := s_fused_ops value ex_stack; s_req_ctx := s_req_ctx value ex_stack;
     s_has_type := s_has_type value ex_stack; s_has := s_has value ex_stack;
     s_load := fun s i c => s_load value ex_stack s (i + 1)%Z c |}.
Example nv_live :
  match init value ex_stack "index x" false with
  | inl m => (List.length (iter value VInt cproj ex_stack m), List.length (iter value VInt cproj ex_stack_grown m))
  | inr _ => (0, 0)%nat
  end = (3, 5)%nat.
Proof. vm_compute. reflexivity. Qed.
