(* C11 -- the property: what ModeWrapper(KDMixWrapper(ds, ...), mode)[i] may return.
   Stated without implementation vocabulary: a sample is either the untouched sample i with a plain
   one-hot label, or  w * sample_i + (1-w) * (sample_p seen through the box of sample i)  for ONE
   partner p of the same dataset and ONE weight w in [0,1], used for the data and for the label. *)
From Coq Require Import ZArith QArith Qabs List Bool Arith.
Import ListNotations.
From KD Require Import C11.Model.
Open Scope Z_scope.

(* ---------- contract of numpy's Generator ---------- *)
Definition unit_ok (u : Q) : Prop := (0 <= u)%Q /\ (u < 1)%Q.          (* random() in [0,1) *)
Definition beta_ok (x : Q) : Prop := (0 <= x)%Q /\ (x <= 1)%Q.         (* beta(a,a) in [0,1] *)
Definition draw_ok (d : draw) : Prop :=
  match d with
  | DUnit u => unit_ok u
  | DInt hi v => 0 <= v < hi                                          (* integers(hi) in [0,hi) *)
  | DBeta _ x => beta_ok x
  end.
Definition draws_ok (dr : list draw) : Prop := Forall draw_ok dr.
(* a generator is a function of its seed: two generators created with the same seed give the same stream *)
Definition seeded_deterministic (G : oracle) : Prop := forall k k' s, G k (Some s) = G k' (Some s).

(* ---------- labels ---------- *)
Fixpoint qsum (l : list Q) : Q := match l with [] => 0%Q | x :: r => (x + qsum r)%Q end.
Definition prob_vector (n : nat) (v : list Q) : Prop :=
  length v = n /\ Forall (fun x => (0 <= x)%Q) v /\ (qsum v == 1)%Q.
(* the wrapped dataset's labels: a class id in range, or already a probability vector of length n_classes *)
Definition label_ok (n : nat) (l : label) : Prop :=
  match l with
  | LInt y => 0 <= y < Z.of_nat n
  | LVec v => prob_vector n v
  end.
Definition labels_ok (ds : dataset) : Prop := forall k, label_ok (ds_ncls ds) (ds_cls ds k).
(* v is the plain one-hot vector of class y *)
Definition is_one_hot (y n : nat) (v : list Q) : Prop :=
  length v = n /\ forall k, (k < n)%nat -> nth k v 0%Q = if (k =? y)%nat then 1%Q else 0%Q.
(* the label of sample k as a vector *)
Definition label_vector (ds : dataset) (k : nat) : list Q :=
  match ds_cls ds k with
  | LInt y => one_hot (Z.to_nat y) (ds_ncls ds)
  | LVec v => v
  end.
Fixpoint blend (w : Q) (a b : list Q) : list Q :=
  match a, b with
  | x :: a', y :: b' => (w * x + (1 - w) * y)%Q :: blend w a' b'
  | _, _ => []
  end.

(* ---------- data ---------- *)
(* tensor x2 seen through a box of shape sx: entries inside both boxes are x2's, the rest is zero
   ("pad or cut at the end"; for equal shapes this is x2 itself) *)
Definition unified (sx : list nat) (x2 : tensor) : tensor :=
  {| shape := sx; at_ := fun idx => if inside (shape x2) idx then at_ x2 idx else 0%Q |}.
Definition same_tensor (a b : tensor) : Prop :=
  shape a = shape b /\ forall idx, inside (shape a) idx = true -> (at_ a idx == at_ b idx)%Q.

(* s is the convex combination of sample i and sample p with weight w -- data AND label *)
Definition convex_of (ds : dataset) (i p : nat) (w : Q) (x : tensor) (cls : list Q) : Prop :=
  (p < ds_len ds)%nat /\ (0 <= w)%Q /\ (w <= 1)%Q /\
  shape x = shape (ds_x ds i) /\
  (forall idx, inside (shape (ds_x ds i)) idx = true ->
     (at_ x idx == w * at_ (ds_x ds i) idx + (1 - w) * at_ (unified (shape (ds_x ds i)) (ds_x ds p)) idx)%Q) /\
  Forall2 Qeq cls (blend w (label_vector ds i) (label_vector ds p)).
Definition untouched (ds : dataset) (i : nat) (x : tensor) (cls : list Q) : Prop :=
  x = ds_x ds i /\ cls = label_vector ds i.

(* the three requests are views of one sample *)
Definition view (s : sample) (idx : nat) (t : token) : value :=
  match t with
  | TX => VX (s_x s)
  | TClass => VCls (s_cls s)
  | TIndex => VIndex idx
  | TOther _ => VNone
  end.
(* the context of a request describes the requested sample: every load that may record into it is a load of idx *)
Definition load_index (l : load) : Z := match l with LdX i => i | LdClass i => i end.
Definition ctx_describes (idx : nat) (s : sample) : Prop := Forall (fun l => load_index l = Z.of_nat idx) (s_ctx s).

Definition no_other (toks : list token) : Prop := forall k, ~ In (TOther k) toks.
Definition wants_sample (toks : list token) : bool := existsb (fun t => tok_eqb t TX || tok_eqb t TClass) toks.

(* ====================================================================== *)
(* boolean spec on what the harness observed from the real code           *)
(* ====================================================================== *)
Inductive obs_value :=
| OX (sh : list nat) (data : list Q)   (* a tensor: shape and row-major entries *)
| OCls (row : list Q)
| OIndex (i : Z)
| OBad.                                (* anything else *)

Definition close (tol a b : Q) : bool := Qle_bool (Qabs (a - b)) tol.
Definition tol_pix : Q := 1 # 500.       (* entries (magnitude <= 100) after float32 mixing *)
Definition tol_lab : Q := 1 # 100000.    (* label entries *)
Fixpoint close_list (tol : Q) (a b : list Q) : bool :=
  match a, b with
  | [], [] => true
  | x :: a', y :: b' => close tol x y && close_list tol a' b'
  | _, _ => false
  end.

(* dataset literal: (shape, row-major data, label) per sample *)
Definition sample_lit : Type := list nat * list Q * label.
Definition lit_tensor (s : sample_lit) : tensor := of_flat (fst (fst s)) (snd (fst s)).
Definition lit_dataset (l : list sample_lit) (ncls : nat) : dataset :=
  ds_of_list (map (fun s => (lit_tensor s, snd s)) l) ncls.

Definition expected_x (ds : dataset) (i : nat) (wit : option (nat * Q)) : list Q :=
  let xi := ds_x ds i in
  match wit with
  | None => flatten xi
  | Some (p, w) =>
      let xp := unified (shape xi) (ds_x ds p) in
      map (fun idx => (w * at_ xi idx + (1 - w) * at_ xp idx)%Q) (indices (shape xi))
  end.
Definition expected_cls (ds : dataset) (i : nat) (wit : option (nat * Q)) : list Q :=
  match wit with
  | None => label_vector ds i
  | Some (p, w) => blend w (label_vector ds i) (label_vector ds p)
  end.

(* the labels that go into the returned one are probability vectors (class ids, one-hot / soft / smoothed rows; the
   float32 entries of a smoothed row sum to one up to 1e-6) -- binary labels given as 1-element vectors are not *)
Definition near_prob (v : list Q) : bool :=
  forallb (fun x => Qle_bool 0 x) v && close (1 # 1000000) (qsum v) 1.
Definition inputs_prob (ds : dataset) (i : nat) (wit : option (nat * Q)) : bool :=
  near_prob (label_vector ds i) && match wit with None => true | Some (p, _) => near_prob (label_vector ds p) end.

Definition item_ok (ds : dataset) (i : nat) (wit : option (nat * Q)) (t : token) (o : obs_value) : bool :=
  match t, o with
  | TX, OX sh data => list_eqb sh (shape (ds_x ds i)) && close_list tol_pix data (expected_x ds i wit)
  | TClass, OCls row =>
      close_list tol_lab row (expected_cls ds i wit)
      && (negb (inputs_prob ds i wit)
          || (forallb (fun v => Qle_bool 0 v) row                (* non-negative *)
              && close tol_lab (qsum row) 1))                    (* sums to one *)
      && (length row =? ds_ncls ds)%nat
  | TIndex, OIndex v => v =? Z.of_nat i
  | _, _ => false
  end.
Fixpoint items_ok (ds : dataset) (i : nat) (wit : option (nat * Q)) (toks : list token) (os : list obs_value) : bool :=
  match toks, os with
  | [], [] => true
  | t :: toks', o :: os' => item_ok ds i wit t o && items_ok ds i wit toks' os'
  | _, _ => false
  end.

(* wit = (partner the wrapped dataset was asked for, weight decoded from the output) of the request that
   produced the returned items; None = no partner was loaded *)
Definition spec_obs (ds : dataset) (c : cfg) (toks : list token) (i : nat)
           (wit : option (nat * Q)) (os : list obs_value) (ctx_ids : list Z) : bool :=
  match wit with
  | None => Qltb (total_p c) 1 || negb (wants_sample toks)       (* probability one: every sample is mixed *)
  | Some (p, w) => (p <? ds_len ds)%nat && Qle_bool 0 w && Qle_bool w 1
  end
  && items_ok ds i wit toks os
  (* every entry of the returned context was recorded while loading sample i (ctx_ids: the sample each entry decodes to) *)
  && forallb (fun k => k =? Z.of_nat i) ctx_ids.
