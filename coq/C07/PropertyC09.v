(* C09 - every dataloader worker gets its own reproducible augmentation stream. *)
From Coq Require Import ZArith List Bool String.
Import ListNotations.
From KD Require Import C07.RngGraph C07.Proofs C07.ModelC08 C07.ProofsC08 C07.ModelC09 C07.ProofsC09.
From KD Require Import C07.gen.RngTable C07.TableProofs C07.TableProofsC09.
Close Scope Z_scope.
Open Scope nat_scope.

(* generic: over closed tables, for ANY dataset stack (wrappers, subsets, concats, interleaved concats, roots with
   collators) over ANY transform trees and whatever the inherited slots hold: after worker_init every generator that
   samples or batches of the stack can draw from is worker-derived: Wrk j - seeded from the j-th draw this hook made
   from the worker's own global RNG, k <= j < k' - or (the wrappers' own draws without a seed: MUGS, mix) one of the
   worker's process-global generators; none is still the copy inherited from the parent process, none is OS entropy *)
Theorem after_worker_init_no_copied_slot : forall tbl ctbl wt ds,
    forallb (closed tbl) tbl = true ->
    forallb (closed ctbl) ctbl = true ->
    forallb (wiclosed tbl) wt = true ->
    dsclosed ds = true ->
    forall s, swf tbl ctbl wt s = true -> fwd_known ds s = true ->
    forall k q, In q (stack_draws tbl ctbl wt (snd (worker_init tbl ctbl wt ds k s))) ->
                worker_derived k (fst (worker_init tbl ctbl wt ds k s)) q = true.
Proof. exact after_worker_init_no_copied_slot_proof. Qed.
Print Assumptions after_worker_init_no_copied_slot.

(* every generator OBJECT (transform slots at any depth, per-view transforms, collators) that can be drawn from
   afterwards was created by this hook from the worker's global RNG *)
Theorem after_worker_init_slots_are_fresh : forall tbl ctbl wt ds,
    forallb (closed tbl) tbl = true ->
    forallb (closed ctbl) ctbl = true ->
    forallb (wiclosed tbl) wt = true ->
    dsclosed ds = true ->
    forall s, swf tbl ctbl wt s = true -> fwd_known ds s = true ->
    forall k q, In q (stack_draws tbl ctbl wt (snd (worker_init tbl ctbl wt ds k s))) ->
                (forall g, q <> Glob g) ->
                is_wrk_in k (fst (worker_init tbl ctbl wt ds k s)) q = true.
Proof. exact after_worker_init_slots_are_fresh_proof. Qed.
Print Assumptions after_worker_init_slots_are_fresh.

(* the streams are a function of the worker's seed: two copies of the same stack (same shape, arbitrary different
   slot contents - e.g. the copies of two workers, or of one worker in two runs) consume the same number of global
   draws and end up with the same provenance Wrk j in every unit.  Which NumPy stream Wrk j is depends only on the
   worker's global seed (j-th value of np.random.randint after np.random.seed(worker seed)). *)
Theorem worker_streams_function_of_worker_seed : forall tbl ctbl wt ds,
    forallb (closed tbl) tbl = true ->
    forallb (closed ctbl) ctbl = true ->
    forallb (wiclosed tbl) wt = true ->
    dsclosed ds = true ->
    forall s1 s2, serase s1 = serase s2 ->
    swf tbl ctbl wt s1 = true -> fwd_known ds s1 = true ->
    forall k,
      fst (worker_init tbl ctbl wt ds k s1) = fst (worker_init tbl ctbl wt ds k s2)
      /\ stack_units tbl ctbl wt (snd (worker_init tbl ctbl wt ds k s1)) = stack_units tbl ctbl wt (snd (worker_init tbl ctbl wt ds k s2))
      /\ stack_draws tbl ctbl wt (snd (worker_init tbl ctbl wt ds k s1)) = stack_draws tbl ctbl wt (snd (worker_init tbl ctbl wt ds k s2)).
Proof. exact worker_streams_function_of_worker_seed_proof. Qed.
Print Assumptions worker_streams_function_of_worker_seed.

(* distinct units get distinct draws of the worker's global RNG: starting from an inherited stack (no worker-derived
   generator yet), no worker seed j ends up in two units, and a unit that holds Wrk j holds nothing else *)
Theorem worker_seed_owned_by_one_unit : forall tbl ctbl wt ds,
    forallb (closed tbl) tbl = true ->
    forallb (closed ctbl) ctbl = true ->
    forall s, swf tbl ctbl wt s = true -> inherited tbl ctbl wt s = true ->
    forall k,
      let r := worker_init tbl ctbl wt ds k s in
      (forall j, owners j (stack_units tbl ctbl wt (snd r)) <= 1)
      /\ (forall u, In u (stack_units tbl ctbl wt (snd r)) -> forall j, In (Wrk j) u ->
                    k <= j /\ j < fst r /\ forall q, In q u -> q = Wrk j).
Proof. exact worker_seed_owned_by_one_unit_proof. Qed.
Print Assumptions worker_seed_owned_by_one_unit.

(* the same WITHOUT the `inherited` premise, over closed wrapper / dataset tables: whatever the slots held before
   (inherited copies, generators of an earlier worker_init, per-item generators injected by a seeded wrapper) *)
Theorem worker_seed_owned_by_one_unit_any_start : forall tbl ctbl wt ds,
    forallb (closed tbl) tbl = true ->
    forallb (closed ctbl) ctbl = true ->
    forallb (wiclosed tbl) wt = true ->
    dsclosed ds = true ->
    forall s, swf tbl ctbl wt s = true -> fwd_known ds s = true ->
    forall k,
      let r := worker_init tbl ctbl wt ds k s in
      (forall j, owners j (stack_units tbl ctbl wt (snd r)) <= 1)
      /\ (forall u, In u (stack_units tbl ctbl wt (snd r)) -> forall j, In (Wrk j) u ->
                    k <= j /\ j < fst r /\ forall q, In q u -> q = Wrk j).
Proof. exact worker_seed_owned_by_one_unit_any_start_proof. Qed.
Print Assumptions worker_seed_owned_by_one_unit_any_start.

(* the hook writes generator slots and nothing else: the shape of the stack (and with it being an instance of the
   tables) is unchanged - there is no state a later run of the hook, or a copy of the object, could see *)
Theorem worker_init_preserves_shape : forall tbl ctbl wt ds s k,
    serase (snd (worker_init tbl ctbl wt ds k s)) = serase s
    /\ swf tbl ctbl wt (snd (worker_init tbl ctbl wt ds k s)) = swf tbl ctbl wt s.
Proof. exact worker_init_preserves_shape_proof. Qed.
Print Assumptions worker_init_preserves_shape.

(* worker_init is a function of (stack shape, worker seed) only, independent of earlier worker_init calls: after ANY
   history ks of earlier runs of the hook on the object (in the parent before the copies were made - a manual call for
   num_workers = 0, an earlier launch on the same dataset - or earlier in this worker, each with whatever seeds), the
   run that starts at k consumes the same number of global draws and leaves the same provenance in every unit as the
   run on the pristine object would have; the numbering k' of the earlier runs is irrelevant *)
Theorem worker_init_idempotent_in_history : forall tbl ctbl wt ds,
    forallb (closed tbl) tbl = true ->
    forallb (closed ctbl) ctbl = true ->
    forallb (wiclosed tbl) wt = true ->
    dsclosed ds = true ->
    forall s, swf tbl ctbl wt s = true -> fwd_known ds s = true ->
    forall ks k,
      let h := wi_history tbl ctbl wt ds ks s in
      fst (worker_init tbl ctbl wt ds k h) = fst (worker_init tbl ctbl wt ds k s)
      /\ stack_units tbl ctbl wt (snd (worker_init tbl ctbl wt ds k h)) = stack_units tbl ctbl wt (snd (worker_init tbl ctbl wt ds k s))
      /\ stack_draws tbl ctbl wt (snd (worker_init tbl ctbl wt ds k h)) = stack_draws tbl ctbl wt (snd (worker_init tbl ctbl wt ds k s)).
Proof. exact worker_init_idempotent_in_history_proof. Qed.
Print Assumptions worker_init_idempotent_in_history.

(* the LAST seed wins: after any history, every generator samples / batches can draw from is derived from the draws
   k .. of the run that came last (none is left over from an earlier run, none is an inherited copy) *)
Theorem worker_init_last_seed_wins : forall tbl ctbl wt ds,
    forallb (closed tbl) tbl = true ->
    forallb (closed ctbl) ctbl = true ->
    forallb (wiclosed tbl) wt = true ->
    dsclosed ds = true ->
    forall s, swf tbl ctbl wt s = true -> fwd_known ds s = true ->
    forall ks k q,
      let h := wi_history tbl ctbl wt ds ks s in
      In q (stack_draws tbl ctbl wt (snd (worker_init tbl ctbl wt ds k h))) ->
      worker_derived k (fst (worker_init tbl ctbl wt ds k h)) q = true.
Proof. exact worker_init_last_seed_wins_proof. Qed.
Print Assumptions worker_init_last_seed_wins.

(* the tables generated from today's sources are closed *)
Theorem wrapper_table_wi_closed : forallb (wiclosed rng_table) wrp_table = true.
Proof. exact wrapper_table_wi_closed_proof. Qed.
Print Assumptions wrapper_table_wi_closed.

Theorem collator_table_closed : forallb (closed col_table) col_table = true.
Proof. exact collator_table_closed_proof. Qed.
Print Assumptions collator_table_closed.

Theorem dataset_table_closed : dsclosed ds_table = true.
Proof. exact dataset_table_closed_proof. Qed.
Print Assumptions dataset_table_closed.

(* hence for the shipped dataset classes, wrappers, transforms and collators *)
Theorem shipped_no_copied_slot : forall s,
    swf rng_table col_table wrp_table s = true -> fwd_known ds_table s = true ->
    forall k q, In q (stack_draws rng_table col_table wrp_table (snd (worker_init rng_table col_table wrp_table ds_table k s))) ->
                worker_derived k (fst (worker_init rng_table col_table wrp_table ds_table k s)) q = true.
Proof.
  exact (after_worker_init_no_copied_slot_proof rng_table col_table wrp_table ds_table
           table_closed_proof collator_table_closed_proof wrapper_table_wi_closed_proof dataset_table_closed_proof).
Qed.
Print Assumptions shipped_no_copied_slot.

Theorem shipped_streams_function_of_worker_seed : forall s1 s2, serase s1 = serase s2 ->
    swf rng_table col_table wrp_table s1 = true -> fwd_known ds_table s1 = true ->
    forall k,
      fst (worker_init rng_table col_table wrp_table ds_table k s1) = fst (worker_init rng_table col_table wrp_table ds_table k s2)
      /\ stack_units rng_table col_table wrp_table (snd (worker_init rng_table col_table wrp_table ds_table k s1))
         = stack_units rng_table col_table wrp_table (snd (worker_init rng_table col_table wrp_table ds_table k s2))
      /\ stack_draws rng_table col_table wrp_table (snd (worker_init rng_table col_table wrp_table ds_table k s1))
         = stack_draws rng_table col_table wrp_table (snd (worker_init rng_table col_table wrp_table ds_table k s2)).
Proof.
  exact (worker_streams_function_of_worker_seed_proof rng_table col_table wrp_table ds_table
           table_closed_proof collator_table_closed_proof wrapper_table_wi_closed_proof dataset_table_closed_proof).
Qed.
Print Assumptions shipped_streams_function_of_worker_seed.

Theorem shipped_worker_seed_owned_by_one_unit : forall s,
    swf rng_table col_table wrp_table s = true -> inherited rng_table col_table wrp_table s = true ->
    forall k,
      let r := worker_init rng_table col_table wrp_table ds_table k s in
      (forall j, owners j (stack_units rng_table col_table wrp_table (snd r)) <= 1)
      /\ (forall u, In u (stack_units rng_table col_table wrp_table (snd r)) -> forall j, In (Wrk j) u ->
                    k <= j /\ j < fst r /\ forall q, In q u -> q = Wrk j).
Proof.
  exact (worker_seed_owned_by_one_unit_proof rng_table col_table wrp_table ds_table table_closed_proof collator_table_closed_proof).
Qed.
Print Assumptions shipped_worker_seed_owned_by_one_unit.

Theorem shipped_worker_seed_owned_by_one_unit_any_start : forall s,
    swf rng_table col_table wrp_table s = true -> fwd_known ds_table s = true ->
    forall k,
      let r := worker_init rng_table col_table wrp_table ds_table k s in
      (forall j, owners j (stack_units rng_table col_table wrp_table (snd r)) <= 1)
      /\ (forall u, In u (stack_units rng_table col_table wrp_table (snd r)) -> forall j, In (Wrk j) u ->
                    k <= j /\ j < fst r /\ forall q, In q u -> q = Wrk j).
Proof.
  exact (worker_seed_owned_by_one_unit_any_start_proof rng_table col_table wrp_table ds_table
           table_closed_proof collator_table_closed_proof wrapper_table_wi_closed_proof dataset_table_closed_proof).
Qed.
Print Assumptions shipped_worker_seed_owned_by_one_unit_any_start.

Theorem shipped_worker_init_idempotent_in_history : forall s,
    swf rng_table col_table wrp_table s = true -> fwd_known ds_table s = true ->
    forall ks k,
      let h := wi_history rng_table col_table wrp_table ds_table ks s in
      fst (worker_init rng_table col_table wrp_table ds_table k h) = fst (worker_init rng_table col_table wrp_table ds_table k s)
      /\ stack_units rng_table col_table wrp_table (snd (worker_init rng_table col_table wrp_table ds_table k h))
         = stack_units rng_table col_table wrp_table (snd (worker_init rng_table col_table wrp_table ds_table k s))
      /\ stack_draws rng_table col_table wrp_table (snd (worker_init rng_table col_table wrp_table ds_table k h))
         = stack_draws rng_table col_table wrp_table (snd (worker_init rng_table col_table wrp_table ds_table k s)).
Proof.
  exact (worker_init_idempotent_in_history_proof rng_table col_table wrp_table ds_table
           table_closed_proof collator_table_closed_proof wrapper_table_wi_closed_proof dataset_table_closed_proof).
Qed.
Print Assumptions shipped_worker_init_idempotent_in_history.

Theorem shipped_worker_init_last_seed_wins : forall s,
    swf rng_table col_table wrp_table s = true -> fwd_known ds_table s = true ->
    forall ks k q,
      let h := wi_history rng_table col_table wrp_table ds_table ks s in
      In q (stack_draws rng_table col_table wrp_table (snd (worker_init rng_table col_table wrp_table ds_table k h))) ->
      worker_derived k (fst (worker_init rng_table col_table wrp_table ds_table k h)) q = true.
Proof.
  exact (worker_init_last_seed_wins_proof rng_table col_table wrp_table ds_table
           table_closed_proof collator_table_closed_proof wrapper_table_wi_closed_proof dataset_table_closed_proof).
Qed.
Print Assumptions shipped_worker_init_last_seed_wins.

(* non-vacuity: ModeWrapper over a multi-view wrapper (two per-view transforms, one nested) over a subset over a semseg
   wrapper over a root with a mix collator is an instance of the generated tables, inherited, and its four units get the
   four worker seeds 0..3 *)
Example nonvacuous :
  let s := DFwd "ModeWrapper"
             [DWrap (WObj "KDMultiViewWrapper"
                       [("transform_configs"%string,
                         [Node "KDRandomCrop" (Some (Ctor 0)) [];
                          Node "KDComposeTransform" None
                            [("transforms"%string, [Node "PatchwiseTransform" None
                                               [("patchify"%string, [Node "Patchify" None []]);
                                                ("transform"%string, [Node "KDRandomHorizontalFlip" (Some (Ctor 1)) []]);
                                                ("unpatchify"%string, [Node "Unpatchify" None []])]])]])])
                (DFwd "KDSubset"
                   [DWrap (WObj "SemsegTransformWrapper"
                             [("transforms"%string, [Node "KDSemsegRandomHorizontalFlip" (Some (Ctor 2)) []])])
                      (DRoot [Node "KDMixCollator" (Some (Ctor 3)) []])])] in
  swf rng_table col_table wrp_table s = true
  /\ fwd_known ds_table s = true
  /\ inherited rng_table col_table wrp_table s = true
  /\ stack_units rng_table col_table wrp_table s = [[]; [Ctor 0]; [Ctor 1]; []; [Ctor 2]; [Ctor 3]]
  /\ fst (worker_init rng_table col_table wrp_table ds_table 0 s) = 4
  /\ stack_units rng_table col_table wrp_table (snd (worker_init rng_table col_table wrp_table ds_table 0 s))
     = [[]; [Wrk 0]; [Wrk 1]; []; [Wrk 2]; [Wrk 3]].
Proof. vm_compute. repeat split. Qed.

(* non-vacuity of the version without `inherited`: a stack whose slots already hold worker-derived and injected
   generators (not inherited), with an unseeded mix wrapper (its own draws come from the worker's global NumPy RNG) *)
Example nonvacuous_any_start :
  let s := DFwd "ModeWrapper"
             [DWrap (WObj "KDMixWrapper" [])
                (DWrap (WObj "XTransformWrapper"
                          [("transform"%string, [Node "KDComposeTransform" None
                                                   [("transforms"%string, [Node "KDRandomCrop" (Some (Wrk 7)) [];
                                                                            Node "KDRandomHorizontalFlip" (Some (Inj 3%Z)) []])]])])
                   (DRoot [Node "KDMixCollator" (Some (Wrk 7)) []]))] in
  swf rng_table col_table wrp_table s = true
  /\ fwd_known ds_table s = true
  /\ inherited rng_table col_table wrp_table s = false
  /\ stack_units rng_table col_table wrp_table s = [[Glob GNumpy]; []; [Wrk 7; Inj 3%Z]; [Wrk 7]]
  /\ stack_units rng_table col_table wrp_table (snd (worker_init rng_table col_table wrp_table ds_table 0 s))
     = [[Glob GNumpy]; []; [Wrk 0; Wrk 0]; [Wrk 1]]
  /\ forallb (worker_derived 0 2) (stack_draws rng_table col_table wrp_table (snd (worker_init rng_table col_table wrp_table ds_table 0 s))) = true.
Proof. vm_compute. repeat split. Qed.

(* non-vacuity of the history theorems: the hook run twice before (once starting at 5, once at 11 - e.g. in the parent
   and in an earlier launch), then the run at 0: the units are those of the run at 0 on the pristine stack, the
   intermediate state held the generators of the earlier runs *)
Example nonvacuous_history :
  let s := DFwd "ModeWrapper"
             [DWrap (WObj "XTransformWrapper"
                       [("transform"%string, [Node "KDComposeTransform" None
                                                [("transforms"%string, [Node "KDRandomCrop" (Some (Ctor 0)) [];
                                                                         Node "KDRandomHorizontalFlip" (Some (Ctor 1)) []])]])])
                (DRoot [Node "KDMixCollator" (Some (Ctor 2)) []])] in
  let h := wi_history rng_table col_table wrp_table ds_table [5; 11] s in
  swf rng_table col_table wrp_table s = true
  /\ fwd_known ds_table s = true
  /\ stack_units rng_table col_table wrp_table h = [[]; [Wrk 11; Wrk 11]; [Wrk 12]]
  /\ stack_units rng_table col_table wrp_table (snd (worker_init rng_table col_table wrp_table ds_table 0 h))
     = [[]; [Wrk 0; Wrk 0]; [Wrk 1]]
  /\ stack_units rng_table col_table wrp_table (snd (worker_init rng_table col_table wrp_table ds_table 0 s))
     = [[]; [Wrk 0; Wrk 0]; [Wrk 1]].
Proof. vm_compute. repeat split. Qed.
