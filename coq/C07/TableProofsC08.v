(* Obligations about the GENERATED wrapper table (gen/RngTable.v, regenerated from the sources on every run). *)
From Coq Require Import ZArith List Bool String.
Import ListNotations.
From KD Require Import C07.RngGraph C07.Proofs C07.ModelC08 C07.ProofsC08 C07.gen.RngTable C07.TableProofs.

(* vm_compute lists the wrapper classes whose seeded per-item code is not closed (a called transform field that is
   not re-injected behind a guard admitting every non-quiet class it can hold, or a draw of the wrapper itself that
   does not come from the per-item generator); a narrowed guard fails here with
   `Unable to unify "[]" with "["TheWrapper"]"`. *)
Lemma wrp_table_no_open_class : wopen_classes rng_table wrp_table = [].
Proof. vm_compute. reflexivity. Qed.

Lemma wrapper_table_closed_proof : forallb (wclosed rng_table) wrp_table = true.
Proof. apply wopen_nil_closed. exact wrp_table_no_open_class. Qed.
