(* C13 — class-balanced, semi-supervised and weighted samplers compose epochs as
   promised.  Statements only; proofs in ProofsCB / ProofsSemi / ProofsW / Proofs.
   Quantification: every class list (any labels, incl. -1 = unlabeled), number of
   classes, samples_per_class, num_labeled / num_unlabeled, length mode, world
   size W >= 1, rank, seed, epoch, and every draw oracle satisfying the contract
   of the torch function used (randperm: a permutation of 0..n-1; multinomial
   without replacement: E distinct valid indices).  The premises cb_ctor_ok /
   semi_ctor_ok / w_E = Ok say that the real constructor's assertions pass. *)
From Coq Require Import ZArith List Bool Arith Permutation.
Import ListNotations.
From KD Require Import C12.Model C12.Spec C12.Proofs C13.Model C13.Spec C13.ProofsCB C13.ProofsSemi C13.ProofsW C13.ProofsModes C13.Proofs C13.ProofsRanks C13.Reflect.

(* ================= ClassBalancedSampler ================= *)

(* the while loop over one class ends (within spc + 1 iterations) when the class
   has at least one sample — what the repaired constructor guarantees ... *)
Theorem pool_loop_terminates : forall g shuffle pool, pool <> [] ->
    (forall h k, Permutation (g h k) (seq 0 k)) ->
    forall fuel remaining h, remaining < fuel ->
    exists chunk h', pool_loop fuel g shuffle pool remaining h = Ok (chunk, h') /\
                     length chunk = remaining /\ Forall (fun x => In x pool) chunk.
Proof. exact pool_loop_ok. Qed.
Print Assumptions pool_loop_terminates.

(* ... and never ends on an empty pool (the hang before the repair) *)
Theorem pool_loop_needs_nonempty_pool : forall g fuel remaining h, remaining <> 0 ->
    (forall h k, Permutation (g h k) (seq 0 k)) ->
    pool_loop fuel g true [] remaining h = Runaway.
Proof. exact pool_loop_empty_pool_runs_away. Qed.
Print Assumptions pool_loop_needs_nonempty_pool.

(* the epoch's global draw exists and holds exactly samples_per_class indices of every class *)
Theorem global_has_exact_spc_per_class : forall c draw, perm_oracle draw -> cb_ctor_ok c = true ->
    exists G h, cb_global c draw = Ok (G, h) /\ exact_per_class (cb_classes c) (cb_C c) (cb_spc c) G.
Proof. exact p_exact. Qed.
Print Assumptions global_has_exact_spc_per_class.

(* a sample whose class has k samples occurs floor(spc/k) or ceil(spc/k) times *)
Theorem reuse_even : forall c draw G h, perm_oracle draw -> cb_ctor_ok c = true -> cb_global c draw = Ok (G, h) ->
    reuse_even_spec (cb_classes c) (cb_C c) (cb_spc c) G.
Proof. exact p_reuse. Qed.
Print Assumptions reuse_even.

(* the ranks' streams merge round-robin into a prefix of the global draw; fewer than
   W entries are cut off, none when W divides C*spc — then all ranks together hold
   exactly samples_per_class indices of every class *)
Theorem ranks_union_is_prefix : forall c draw G h, perm_oracle draw -> cb_ctor_ok c = true -> 1 <= cb_W c ->
    cb_global c draw = Ok (G, h) ->
    let E := cb_C c * cb_spc c in let W := cb_W c in
    split_of true W (E / W) G (cb_streams c draw) /\
    interleave (cb_streams c draw) = firstn (W * (E / W)) G /\
    E - W * (E / W) < W /\
    (E mod W = 0 -> interleave (cb_streams c draw) = G /\
                    exact_per_class (cb_classes c) (cb_C c) (cb_spc c) (interleave (cb_streams c draw))).
Proof. exact p_ranks. Qed.
Print Assumptions ranks_union_is_prefix.

(* when W does not divide C*spc: the ranks together hold every class spc times minus what the cut-off tail (the last
   (C*spc) mod W entries of the global draw) held of it, i.e. between spc - (C*spc) mod W and spc times *)
Theorem ranks_hold_each_class_up_to_the_cut : forall c draw G h,
    perm_oracle draw -> cb_ctor_ok c = true -> 1 <= cb_W c -> cb_global c draw = Ok (G, h) ->
    let E := cb_C c * cb_spc c in let W := cb_W c in
    let tail := skipn (W * (E / W)) G in
    let held := interleave (cb_streams c draw) in
    length tail = E mod W /\ length held = W * (E / W) /\
    forall i, i < cb_C c ->
      class_count (cb_classes c) (Z.of_nat i) held + class_count (cb_classes c) (Z.of_nat i) tail = cb_spc c /\
      cb_spc c - E mod W <= class_count (cb_classes c) (Z.of_nat i) held /\
      class_count (cb_classes c) (Z.of_nat i) held <= cb_spc c.
Proof. exact cb_ranks_class_counts. Qed.
Print Assumptions ranks_hold_each_class_up_to_the_cut.

Theorem class_balanced_indices_valid_and_length : forall c draw G h,
    perm_oracle draw -> cb_ctor_ok c = true -> 1 <= cb_W c -> cb_global c draw = Ok (G, h) ->
    indices_valid (length (cb_classes c)) G /\
    forall rank, rank < cb_W c ->
      exists s, r_out (cb_run c draw rank) = Ok s /\ indices_valid (length (cb_classes c)) s /\
                length s = r_len (cb_run c draw rank) /\
                r_len (cb_run c draw rank) = cb_C c * cb_spc c / cb_W c.
Proof. exact p_cb_valid. Qed.
Print Assumptions class_balanced_indices_valid_and_length.

(* ================= SemiSampler ================= *)

(* position i holds a labeled sample iff i mod (L+U) < L, else an unlabeled one; all indices valid *)
Theorem alternation_pattern : forall c rank_seed epoch_seed draw rank, perm_oracle draw -> semi_ctor_ok c = true ->
    exists s, r_out (semi_run c rank_seed epoch_seed draw rank) = Ok s /\
              alternation (se_classes c) (se_L c) (se_U c) s.
Proof. exact p_alternation. Qed.
Print Assumptions alternation_pattern.

(* every aligned block of |pool| picks from a pool is a permutation of the pool,
   the unfinished block at the end has no repetition *)
Theorem pool_exhausted_before_repeat : forall c rank_seed epoch_seed draw rank s,
    perm_oracle draw -> semi_ctor_ok c = true ->
    r_out (semi_run c rank_seed epoch_seed draw rank) = Ok s ->
    blocks_exhaust (labeled_pool (se_classes c)) (labeled_picks (se_classes c) s) /\
    blocks_exhaust (unlabeled_pool (se_classes c)) (unlabeled_picks (se_classes c) s).
Proof. exact p_blocks. Qed.
Print Assumptions pool_exhausted_before_repeat.

(* the same, as "a prefix of permutation ++ permutation ++ ..." *)
Theorem picks_cycle_through_pools : forall c rank_seed epoch_seed draw rank s,
    perm_oracle draw -> semi_ctor_ok c = true ->
    r_out (semi_run c rank_seed epoch_seed draw rank) = Ok s ->
    cycles_through (labeled_pool (se_classes c)) (labeled_picks (se_classes c) s) /\
    cycles_through (unlabeled_pool (se_classes c)) (unlabeled_picks (se_classes c) s).
Proof. exact p_cycles. Qed.
Print Assumptions picks_cycle_through_pools.

Theorem cycling_means_blocks_exhaust : forall pool picks, pool <> [] -> NoDup pool ->
    cycles_through pool picks -> blocks_exhaust pool picks.
Proof. exact cycles_blocks. Qed.
Print Assumptions cycling_means_blocks_exhaust.

(* two ranks (any seeds, any draws) yield equally many indices, namely len(sampler) *)
Theorem rank_streams_equal_length : forall c rs1 es1 rs2 es2 draw1 draw2 rank1 rank2,
    perm_oracle draw1 -> perm_oracle draw2 -> semi_ctor_ok c = true ->
    exists s1 s2, r_out (semi_run c rs1 es1 draw1 rank1) = Ok s1 /\ r_out (semi_run c rs2 es2 draw2 rank2) = Ok s2 /\
                  length s1 = length s2 /\ length s1 = r_len (semi_run c rs1 es1 draw1 rank1).
Proof. exact p_equal_length. Qed.
Print Assumptions rank_streams_equal_length.

(* len(sampler) = (whole chunks of the documented length mode) * (L+U) // W *)
Theorem length_modes : forall c rank_seed epoch_seed draw rank, perm_oracle draw -> semi_ctor_ok c = true ->
    exists m, mode_of (se_mode c) = Some m /\
      r_len (semi_run c rank_seed epoch_seed draw rank) =
      epoch_length m (length (labeled_pool (se_classes c))) (length (unlabeled_pool (se_classes c)))
                   (se_L c) (se_U c) / se_W c.
Proof. exact p_length_modes. Qed.
Print Assumptions length_modes.

(* what the length modes mean (one rank): "labeled" = every labeled sample at most once and all
   but fewer than L of them; "unlabeled" = the same for the unlabeled samples *)
Theorem labeled_mode_visits_labeled_samples_once : forall c rs es draw rank s,
    perm_oracle draw -> semi_ctor_ok c = true -> se_W c = 1 ->
    se_mode c = MLabeled -> r_out (semi_run c rs es draw rank) = Ok s ->
    let picks := labeled_picks (se_classes c) s in
    let nl := length (labeled_pool (se_classes c)) in
    NoDup picks /\ length picks <= nl /\ nl - length picks < se_L c.
Proof. exact labeled_mode_once. Qed.
Print Assumptions labeled_mode_visits_labeled_samples_once.

Theorem unlabeled_mode_visits_unlabeled_samples_once : forall c rs es draw rank s,
    perm_oracle draw -> semi_ctor_ok c = true -> se_W c = 1 ->
    se_mode c = MUnlabeled -> r_out (semi_run c rs es draw rank) = Ok s ->
    let picks := unlabeled_picks (se_classes c) s in
    let nu := length (unlabeled_pool (se_classes c)) in
    NoDup picks /\ length picks <= nu /\ nu - length picks < se_U c.
Proof. exact unlabeled_mode_once. Qed.
Print Assumptions unlabeled_mode_visits_unlabeled_samples_once.

(* the same for any world size W >= 1 (each rank cycles through the pools with its own generator): the exact number of
   labeled picks a rank makes in an epoch of len(sampler) indices ... *)
Theorem rank_pick_counts : forall c rs es draw rank s, perm_oracle draw -> semi_ctor_ok c = true ->
    r_out (semi_run c rs es draw rank) = Ok s ->
    let cc := se_L c + se_U c in
    length s = semi_len c /\
    length (labeled_picks (se_classes c) s) = (semi_len c / cc) * se_L c + Nat.min (semi_len c mod cc) (se_L c) /\
    length (labeled_picks (se_classes c) s) + length (unlabeled_picks (se_classes c) s) = semi_len c.
Proof. exact semi_rank_counts. Qed.
Print Assumptions rank_pick_counts.

(* ... and what "labeled" / "unlabeled" mean for a rank: with q = floor(pool / chunk part) chunks in the whole epoch,
   a rank visits every sample of that pool at most once and makes between floor(q/W) and ceil(q/W) chunk parts of
   picks from it.  (ceil(q*L/W) would be wrong: q = 1, L = U = 2, W = 2 gives len = 2 and 2 labeled picks.) *)
Theorem labeled_mode_each_rank_visits_labeled_samples_at_most_once : forall c rs es draw rank s,
    perm_oracle draw -> semi_ctor_ok c = true -> 1 <= se_W c ->
    se_mode c = MLabeled -> r_out (semi_run c rs es draw rank) = Ok s ->
    let picks := labeled_picks (se_classes c) s in
    let nl := length (labeled_pool (se_classes c)) in
    let q := nl / se_L c in
    NoDup picks /\ (q / se_W c) * se_L c <= length picks /\ length picks <= cdiv q (se_W c) * se_L c /\
    length picks <= nl.
Proof. exact labeled_mode_rank. Qed.
Print Assumptions labeled_mode_each_rank_visits_labeled_samples_at_most_once.

Theorem unlabeled_mode_each_rank_visits_unlabeled_samples_at_most_once : forall c rs es draw rank s,
    perm_oracle draw -> semi_ctor_ok c = true -> 1 <= se_W c ->
    se_mode c = MUnlabeled -> r_out (semi_run c rs es draw rank) = Ok s ->
    let picks := unlabeled_picks (se_classes c) s in
    let nu := length (unlabeled_pool (se_classes c)) in
    let q := nu / se_U c in
    NoDup picks /\ (q / se_W c) * se_U c <= length picks /\ length picks <= cdiv q (se_W c) * se_U c /\
    length picks <= nu.
Proof. exact unlabeled_mode_rank. Qed.
Print Assumptions unlabeled_mode_each_rank_visits_unlabeled_samples_at_most_once.

(* one SemiSampler object over several epochs: the k-th list(sampler) of any call sequence shows what a sampler
   shows whose epoch is the argument of the last set_epoch before it (set_epoch(e) .. set_epoch(e') .. set_epoch(e)
   reproduces; list(sampler) twice without set_epoch reproduces) *)
Theorem semi_object_history : forall c rnd draw rank ops,
    semi_object c rnd draw rank ops =
    map (fun e => semi_run_rnd (se_set_epoch c e) rnd draw rank) (iter_epochs (se_epoch c) ops).
Proof. exact semi_object_spec. Qed.
Print Assumptions semi_object_history.

(* REMARK, not a violation of C13's text ("differently seeded ... streams per rank" is about the ranks of ONE epoch):
   seed + f(rank) + f(epoch) is symmetric, so rank a in epoch b replays rank b in epoch a, for every f *)
Theorem semi_rank_epoch_swap_replays : forall c rnd draw a b,
    r_out (semi_run_rnd (se_set_epoch c (Z.of_nat b)) rnd draw a) =
    r_out (semi_run_rnd (se_set_epoch c (Z.of_nat a)) rnd draw b) /\
    nth 2 (r_seeds (semi_run_rnd (se_set_epoch c (Z.of_nat b)) rnd draw a)) 0%Z =
    nth 2 (r_seeds (semi_run_rnd (se_set_epoch c (Z.of_nat a)) rnd draw b)) 0%Z.
Proof. exact semi_swap. Qed.
Print Assumptions semi_rank_epoch_swap_replays.

(* generators are seeded with rank, epoch, and seed + random_(rank) + random_(epoch) *)
Theorem semi_generator_seeds : forall c rank_seed epoch_seed draw rank, perm_oracle draw -> semi_ctor_ok c = true ->
    r_seeds (semi_run c rank_seed epoch_seed draw rank) =
    [Z.of_nat rank; se_epoch c; (se_seed c + rank_seed + epoch_seed)%Z].
Proof. exact p_semi_seed. Qed.
Print Assumptions semi_generator_seeds.

(* ================= WeightedSampler ================= *)

(* no index twice in an epoch: not within a rank, not across the ranks *)
Theorem no_repeat_within_epoch : forall c draw E, multinomial_oracle (w_n c) draw -> 1 <= w_W c -> w_E c = Ok E ->
    NoDup (interleave (w_streams c draw)) /\ Forall (fun s => NoDup s) (w_streams c draw).
Proof. exact p_w_norepeat. Qed.
Print Assumptions no_repeat_within_epoch.

Theorem weighted_indices_valid_and_length : forall c draw E,
    multinomial_oracle (w_n c) draw -> 1 <= w_W c -> w_E c = Ok E ->
    split_of true (w_W c) (E / w_W c) (draw (w_seed c + w_epoch c)%Z [] E) (w_streams c draw) /\
    Forall (fun s => indices_valid (w_n c) s /\ length s = E / w_W c) (w_streams c draw) /\
    (forall rank, r_len (w_run c draw rank) = E / w_W c) /\
    E = match w_size c with Some s => s | None => w_n c end.
Proof. exact p_w_valid. Qed.
Print Assumptions weighted_indices_valid_and_length.

(* ================= the executable spec of the correspondence run ================= *)
(* what Check.spec_holds evaluates on the implementation's output implies the Prop-level spec *)
Theorem checked_class_balanced_spec_sound : forall classes C spc W L G streams,
    exact_per_classb classes C spc G = true -> reuse_evenb classes C spc G = true ->
    indices_validb (length classes) G = true -> forallb (indices_validb (length classes)) streams = true ->
    split_ofb true W L G streams = true ->
    exact_per_class classes C spc G /\ reuse_even_spec classes C spc G /\ indices_valid (length classes) G /\
    Forall (indices_valid (length classes)) streams /\ split_of true W L G streams.
Proof. exact checked_cb_sound. Qed.
Print Assumptions checked_class_balanced_spec_sound.

Theorem checked_semi_spec_sound : forall classes L U s,
    labeled_pool classes <> [] -> unlabeled_pool classes <> [] ->
    alternationb classes L U s = true ->
    blocks_exhaustb (labeled_pool classes) (labeled_picks classes s) = true ->
    blocks_exhaustb (unlabeled_pool classes) (unlabeled_picks classes s) = true ->
    alternation classes L U s /\
    blocks_exhaust (labeled_pool classes) (labeled_picks classes s) /\
    blocks_exhaust (unlabeled_pool classes) (unlabeled_picks classes s).
Proof. exact checked_semi_sound. Qed.
Print Assumptions checked_semi_spec_sound.

Theorem checked_weighted_spec_sound : forall n W L G streams,
    nodupb (interleave streams) = true -> nodupb G = true -> indices_validb n G = true ->
    forallb (indices_validb n) streams = true -> split_ofb true W L G streams = true ->
    NoDup (interleave streams) /\ NoDup G /\ indices_valid n G /\ Forall (indices_valid n) streams /\
    split_of true W L G streams.
Proof. exact checked_weighted_sound. Qed.
Print Assumptions checked_weighted_spec_sound.

(* ================= default rank / world_size arguments =================
   SemiSampler (like ClassBalancedSampler / WeightedSampler, see C12's Property file) takes rank / world_size left at
   None from the process group AS IT IS AT CONSTRUCTION; queries and samplers constructed earlier in the process
   (EvQuery) are irrelevant; explicit arguments win (also rank 0) *)
Theorem semi_rank_resolution_independent_of_history : forall c rank world g evs rnd draw,
    semi_built c rank world (pg_after g evs) rnd draw
    = semi_built c rank world (pg_after g (filter (fun ev => negb (is_query ev)) evs)) rnd draw.
Proof. exact semi_built_history. Qed.
Print Assumptions semi_rank_resolution_independent_of_history.

Theorem semi_default_arguments_are_explicit_arguments : forall r W evs, joined_as r W evs -> forall c rnd draw,
    semi_built c None None (pg_after pg_fresh evs) rnd draw = semi_run_rnd (se_set_world c W) rnd draw r.
Proof. exact semi_built_default. Qed.
Print Assumptions semi_default_arguments_are_explicit_arguments.

Theorem semi_explicit_arguments_win : forall c r W g rnd draw,
    semi_built c (Some r) (Some W) g rnd draw = semi_run_rnd (se_set_world c W) rnd draw r.
Proof. exact semi_built_explicit. Qed.
Print Assumptions semi_explicit_arguments_win.

(* the W processes of a group, each with a history of its own: equally long streams of effective_length / W indices,
   generators seeded by the process's rank in the group *)
Theorem semi_default_arguments_ranks : forall c rnd draw W (hist : nat -> list pg_event),
    perm_oracle draw -> semi_ctor_ok c = true ->
    (forall r, r < W -> joined_as r W (hist r)) ->
    forall r, r < W ->
    let m := semi_built c None None (pg_after pg_fresh (hist r)) rnd draw in
    exists s, r_out m = Ok s /\ length s = semi_E c / W /\ r_len m = semi_E c / W /\
              r_seeds m = [Z.of_nat r; se_epoch c; (se_seed c + rnd (Z.of_nat r) + rnd (se_epoch c))%Z].
Proof. exact semi_default_ranks. Qed.
Print Assumptions semi_default_arguments_ranks.

(* ================= non-vacuity of the premises ================= *)
Example identity_oracle_is_perm_oracle : perm_oracle (fun _ _ n => seq 0 n).
Proof. intros s h n. apply Permutation_refl. Qed.

Example identity_oracle_is_multinomial_oracle : forall n, multinomial_oracle n (fun _ _ E => seq 0 E).
Proof.
  intros n s h E HE. split; [apply seq_length|]. split; [apply seq_NoDup|].
  apply Forall_forall. intros x Hx. apply in_seq in Hx. apply Nat.lt_le_trans with E; [apply Hx | exact HE].
Qed.

Example cb_ctor_ok_example :
  cb_ctor_ok {| cb_classes := [0; 1; 1; 2; 1]%Z; cb_dim := 3; cb_spc_arg := Some 4; cb_shuffle := true;
                cb_seed := 0; cb_epoch := 0; cb_W := 3 |} = true.
Proof. vm_compute. reflexivity. Qed.

(* the repaired constructor rejects the layout of the defect *)
Example cb_ctor_rejects_empty_class :
  cb_ctor_ok {| cb_classes := [-1; 0; 0; 2]%Z; cb_dim := 3; cb_spc_arg := None; cb_shuffle := true;
                cb_seed := 0; cb_epoch := 0; cb_W := 1 |} = false.
Proof. vm_compute. reflexivity. Qed.

Example cb_example_streams :
  let c := {| cb_classes := [0; 1; 1; 2; 1]%Z; cb_dim := 3; cb_spc_arg := Some 4; cb_shuffle := false;
              cb_seed := 0; cb_epoch := 0; cb_W := 3 |} in
  cb_global c (fun _ _ n => seq 0 n) = Ok ([0; 0; 0; 0; 1; 2; 4; 1; 3; 3; 3; 3], []) /\
  cb_streams c (fun _ _ n => seq 0 n) = [[0; 0; 4; 3]; [0; 1; 1; 3]; [0; 2; 3; 3]].
Proof. vm_compute. split; reflexivity. Qed.

Example semi_ctor_ok_example :
  semi_ctor_ok {| se_classes := [0; -1; 1; -1; -1; 2]%Z; se_L := 2; se_U := 1; se_mode := MUnlabeled;
                  se_seed := 0; se_epoch := 0; se_W := 1 |} = true.
Proof. vm_compute. reflexivity. Qed.

Example semi_example_stream :
  r_out (semi_run {| se_classes := [0; -1; 1; -1; -1; 2]%Z; se_L := 2; se_U := 1; se_mode := MUnlabeled;
                     se_seed := 0; se_epoch := 0; se_W := 1 |} 5 7 (fun _ _ n => seq 0 n) 0)
  = Ok [0; 2; 1; 5; 0; 3; 2; 5; 4].
Proof. vm_compute. reflexivity. Qed.

Example w_E_example : w_E {| w_n := 5; w_size := Some 3; w_seed := 0; w_epoch := 0; w_W := 2 |} = Ok 3.
Proof. vm_compute. reflexivity. Qed.

Example pool_nonempty_example : [3; 4] <> ([] : list nat).
Proof. discriminate. Qed.

Example cycles_through_example : cycles_through [1; 2] [2; 1; 1].
Proof. exists [[2; 1]; [1; 2]], [2]. split; [|reflexivity]. repeat constructor. Qed.

(* the lower bound spc - (C*spc) mod W is attained: 2 classes, spc = 3, W = 4: the tail of 2 entries can hold class 1 twice *)
Example cb_cut_example :
  let c := {| cb_classes := [0; 1; 1; 0]%Z; cb_dim := 2; cb_spc_arg := Some 3; cb_shuffle := false;
              cb_seed := 0; cb_epoch := 0; cb_W := 4 |} in
  cb_global c (fun _ _ n => seq 0 n) = Ok ([0; 3; 0; 1; 2; 1], []) /\
  interleave (cb_streams c (fun _ _ n => seq 0 n)) = [0; 3; 0; 1] /\
  class_count (cb_classes c) 1%Z (interleave (cb_streams c (fun _ _ n => seq 0 n))) = 1.
Proof. vm_compute. repeat split; reflexivity. Qed.

(* q = 1, L = U = 2, W = 2: a rank of 2 indices makes 2 labeled picks = ceil(q/W) * L *)
Example semi_rank_example :
  let c := {| se_classes := [0; 1; -1; -1]%Z; se_L := 2; se_U := 2; se_mode := MLabeled;
              se_seed := 0; se_epoch := 0; se_W := 2 |} in
  semi_ctor_ok c = true /\ r_out (semi_run c 5 7 (fun _ _ n => seq 0 n) 1) = Ok [0; 1].
Proof. vm_compute. split; reflexivity. Qed.

Example semi_default_arguments_example :
  let c := {| se_classes := [0; 1; -1; -1]%Z; se_L := 1; se_U := 1; se_mode := MAll; se_seed := 0; se_epoch := 0; se_W := 0 |} in
  joined_as 1 2 [EvQuery; EvInit 1 2; EvQuery] /\
  r_seeds (semi_built c None None (pg_after pg_fresh [EvQuery; EvInit 1 2; EvQuery]) (fun x => x) (fun _ _ n => seq 0 n))
  = [1; 0; 1]%Z /\
  r_len (semi_built c None None (pg_after pg_fresh [EvQuery; EvInit 1 2; EvQuery]) (fun x => x) (fun _ _ n => seq 0 n)) = 2.
Proof. split; [exists [EvQuery], [EvQuery]; repeat split|vm_compute; split; reflexivity]. Qed.
