(* Executable comparison of the implementation's observations with model and spec,
   used by the correspondence run (harness/c17.py). *)
From Coq Require Import ZArith List Bool.
Import ListNotations.
From KD Require Import C17.Model C17.Spec.
Open Scope Z_scope.

Fixpoint leqb {A : Type} (eq : A -> A -> bool) (a b : list A) : bool :=
  match a, b with
  | [], [] => true
  | x :: a', y :: b' => eq x y && leqb eq a' b'
  | _, _ => false
  end.

Definition masks_eqb : list mask -> list mask -> bool := leqb (leqb (leqb Bool.eqb)).
Definition rows_eqb : list (list Z) -> list (list Z) -> bool := leqb (leqb Z.eqb).

(* one call of the I-JEPA collator: with/without ctx, batch size, recorded draws,
   returned encoder / predictor rows *)
Inductive jcall := JCall (has_ctx : bool) (B : Z) (tr : list draw) (enc pred : list (list Z)).

(* one call of the DINO collator: with/without ctx, batch size, recorded draws, returned masks *)
Inductive dcall := DCall (has_ctx : bool) (B : Z) (tr : list draw) (out : list mask).

Inductive case_t :=
| CDino (c : dcfg) (calls : list dcall)       (* successive calls on ONE collator object *)
| CIjepa (c : jcfg) (sizes : list raw4) (instances : list (Z * list jcall)).
   (* per instance: the value of _itr_counter before its first call (-1 for a new collator object; a DataLoader worker
      sees the shared counter wherever the other workers left it) and its successive calls *)

Definition sizes_fun (l : list raw4) : Z -> raw4 := fun s => nth (Z.to_nat s) l (0, 0, 0, 0).

Definition worst (a b : nat) : nat := Nat.max a b.

(* calls of one collator instance, in order; ctr = _itr_counter before the call *)
Fixpoint check_calls (c : jcfg) (sizes : Z -> raw4) (ctr : Z) (calls : list jcall) : nat :=
  match calls with
  | [] => 0%nat
  | JCall has_ctx B tr enc pred :: rest =>
      let '(ps, es) := block_sizes c sizes ctr in
      let spec :=
        if has_ctx then (if ijepa_rows_okb c B (premiseb c ps es) enc pred then 0%nat else 2%nat) else 0%nat in
      match ijepa_call c sizes ctr tt has_ctx B tr with
      | Ok (_, ctr', Some o) =>
          let model := if rows_eqb (o_enc o) enc && rows_eqb (o_pred o) pred then 0%nat else 1%nat in
          worst (worst spec model) (check_calls c sizes ctr' rest)
      | Ok (_, ctr', None) =>
          worst (match enc, pred with [], [] => 0%nat | _, _ => 1%nat end) (check_calls c sizes ctr' rest)
      | _ => worst spec 1%nat
      end
  end.

Definition check (t : case_t) : nat :=
  match t with
  | CDino c calls =>
      (* every call of the sequence against the spec for ITS batch size and against the model's sequence semantics *)
      let outs := dino_seq c (map (fun '(DCall has_ctx B tr _) => (has_ctx, B, tr)) calls) in
      fold_right worst 0%nat
        (map2 (fun '(DCall has_ctx B tr out) r =>
                 let spec := if has_ctx then (if dino_okb c B out then 0%nat else 2%nat) else 0%nat in
                 let model :=
                   match r with
                   | Ok (_, Some ms) => if masks_eqb ms out then 0%nat else 1%nat
                   | Ok (_, None) => match out with [] => 0%nat | _ => 1%nat end
                   | _ => 1%nat
                   end in
                 worst spec model) calls outs)
  | CIjepa c sizes instances =>
      fold_right (fun inst a => worst (check_calls c (sizes_fun sizes) (fst inst) (snd inst)) a) 0%nat instances
  end.
