(* C17 — DINO and I-JEPA mask collators emit well-formed, budget-respecting, non-overlapping masks.
   Statements only; proofs are in Proofs.v.

   Quantification.  DINO: every configuration with grid H, W >= 0, views >= 0, 0 <= mask_prob <= 1, upper ratio >= 0
   (dcfg_ok), every batch size B >= 0, every min_num_patches and every recorded draw sequence tr satisfying the
   generator contract draw_ok (uniform in [lo, hi], integers in [lo, hi), round(sqrt) >= 0, shuffle a permutation).
   I-JEPA: every grid H, W >= 1, every number of encoder / predictor masks, min_keep, tries, step counter, batch size
   B >= 0, every block-size oracle returning non-negative values and every draw sequence satisfying draw_ok.
   `... = Ok x` says: the recorded draws are the ones this code path asks for (kind and arguments) — which the
   correspondence run establishes for the real collators on every case.

   dRn/dRd is the last element of the float32 linspace the ratio bins come from (float32 of the configured upper
   ratio); the model checks that the upper bound of every ratio draw does not exceed it. *)
From Coq Require Import ZArith List Bool Permutation.
Import ListNotations.
From KD Require Import C17.Model C17.Spec C17.Proofs C17.Example.
Open Scope Z_scope.

(* ================================================================ DINO *)
(* everything the property says about the DINO collator, at once *)
Theorem dino_collate_meets_spec : forall c B tr ms, dcfg_ok c -> 0 <= B -> Forall draw_ok tr ->
  dino_collate c B tr = Ok ms -> dino_ok c B ms.
Proof. exact dino_collate_ok. Qed.
Print Assumptions dino_collate_meets_spec.

(* at most floor(batch * views * mask_prob) masks are non-empty *)
Theorem dino_nonempty_masks_le_budget : forall c B tr ms, dcfg_ok c -> 0 <= B -> Forall draw_ok tr ->
  dino_collate c B tr = Ok ms -> count_nonempty ms <= budget c B.
Proof. exact P_dino_nonempty_masks_le_budget. Qed.
Print Assumptions dino_nonempty_masks_le_budget.

(* _generate_mask: popcount(mask) = num_masked_patches <= num_masked_patches_total is an invariant of the while loop
   (for every fuel, i.e. at whatever iteration the loop is left) ... *)
Theorem dino_count_le_target : forall fuel c m num total tr m' num' tr',
  Forall draw_ok tr -> popcount m = num -> num <= total ->
  generate fuel c m num total tr = Ok (m', num', tr') -> popcount m' = num' /\ num' <= total.
Proof. exact P_dino_count_le_target. Qed.
Print Assumptions dino_count_le_target.

(* ... the target int(u * num_patches) of a ratio draw is at most floor(ratio_max * num_patches) ... *)
Theorem dino_target_le_cap : forall c lo hi u, dcfg_ok c -> draw_ok (DUnif lo hi u) ->
  rat_leb hi (dRn c, dRd c) = true -> fst u * dP c / snd u <= cap c.
Proof. exact P_dino_target_le_cap. Qed.
Print Assumptions dino_target_le_cap.

(* ... hence no returned mask exceeds the upper mask ratio *)
Theorem dino_no_mask_exceeds_upper_ratio : forall c B tr ms, dcfg_ok c -> 0 <= B -> Forall draw_ok tr ->
  dino_collate c B tr = Ok ms -> Forall (fun m => popcount m <= cap c) ms.
Proof. exact P_dino_no_mask_exceeds_upper_ratio. Qed.
Print Assumptions dino_no_mask_exceeds_upper_ratio.

(* the while loop of _generate_mask ends within (total - num) iterations, whatever is drawn: every iteration that
   does not break adds at least one patch; so the model's fuel never runs out *)
Theorem dino_generate_terminates : forall c,
  (forall m num total tr fuel, total - num <= Z.of_nat fuel -> generate fuel c m num total tr <> OutOfFuel) /\
  (forall B tr, dino_collate c B tr <> OutOfFuel).
Proof. exact P_dino_generate_terminates. Qed.
Print Assumptions dino_generate_terminates.

(* one mask per view-sample, each of the configured grid size *)
Theorem dino_masks_have_grid_size : forall c B tr ms, dcfg_ok c -> 0 <= B -> Forall draw_ok tr ->
  dino_collate c B tr = Ok ms -> len ms = B * dV c /\ Forall (well_shaped (dH c) (dW c)) ms.
Proof. exact P_dino_masks_have_grid_size. Qed.
Print Assumptions dino_masks_have_grid_size.

(* a sequence of calls on ONE collator object (full batches, then the smaller last batch of an epoch; or smaller then
   larger; calls without ctx in between): the k-th call meets the spec for ITS OWN batch size - budget
   floor(B_k * views * mask_prob) - whatever the earlier calls were; a call without ctx returns no mask and draws
   nothing.  (The model's sequence semantics [dino_seq] carries no state from call to call; that the real collator
   object does not either is what the correspondence run checks on every generated sequence.) *)
Theorem dino_every_call_of_a_sequence_meets_spec : forall c calls k has_ctx B tr b r,
  dcfg_ok c -> nth_error calls k = Some (has_ctx, B, tr) -> 0 <= B -> Forall draw_ok tr ->
  nth_error (dino_seq c calls) k = Some (Ok (b, r)) ->
  (has_ctx = true -> exists ms, r = Some ms /\ dino_ok c B ms) /\
  (has_ctx = false -> r = None /\ tr = []).
Proof. exact dino_seq_ok. Qed.
Print Assumptions dino_every_call_of_a_sequence_meets_spec.

(* ============================================================== I-JEPA *)
(* everything the property says about one call of the I-JEPA collator, at once; in addition the sizes are the
   step's sizes, the counter advanced by one and, inside the premise, no constrained sampling was retried *)
Theorem ijepa_collate_meets_spec : forall c sizes ctr B tr o,
  jcfg_ok c -> sizes_ok sizes -> 0 <= B -> Forall draw_ok tr ->
  ijepa_collate c sizes ctr B tr = Ok o ->
  (o_psize o, o_esize o) = block_sizes c sizes ctr /\ o_ctr o = ctr + 1 /\
  ijepa_ok c B (o_psize o) (o_esize o) (o_enc o) (o_pred o) /\
  (premise c (o_psize o) (o_esize o) ->
   length tr = S (Z.to_nat B * (2 * jNPred c + 2 * jNEnc c))).
Proof. exact ijepa_collate_ok. Qed.
Print Assumptions ijepa_collate_meets_spec.

(* every returned row is strictly increasing within [0, H*W): sorted, duplicate-free, in range *)
Theorem ijepa_indices_sorted_nodup_inrange : forall c sizes ctr B tr o,
  jcfg_ok c -> sizes_ok sizes -> 0 <= B -> Forall draw_ok tr -> ijepa_collate c sizes ctr B tr = Ok o ->
  Forall (fun l => strictly_inc 0 l (jH c * jW c) = true) (o_enc o ++ o_pred o).
Proof. exact P_ijepa_indices_sorted_nodup_inrange. Qed.
Print Assumptions ijepa_indices_sorted_nodup_inrange.

(* every predictor row is a full rectangle inside the grid, all of the one size sampled for this step *)
Theorem ijepa_pred_rect_common_size : forall c sizes ctr B tr o,
  jcfg_ok c -> sizes_ok sizes -> 0 <= B -> Forall draw_ok tr -> ijepa_collate c sizes ctr B tr = Ok o ->
  len (o_pred o) = Z.of_nat (jNPred c) * B /\
  Forall (is_rect (jH c) (jW c) (fst (o_psize o)) (snd (o_psize o))) (o_pred o).
Proof. exact P_ijepa_pred_rect_common_size. Qed.
Print Assumptions ijepa_pred_rect_common_size.

(* inside the premise enc_area - n_pred * pred_area > min_keep, encoder mask j of sample b shares no patch with
   predictor mask k of the same sample (rows j*B + b and k*B + b of the two returned tensors) *)
Theorem ijepa_enc_disjoint_from_pred : forall c sizes ctr B tr o,
  jcfg_ok c -> sizes_ok sizes -> 0 <= B -> Forall draw_ok tr -> ijepa_collate c sizes ctr B tr = Ok o ->
  premise c (o_psize o) (o_esize o) ->
  forall j k b : nat, (j < jNEnc c)%nat -> (k < jNPred c)%nat -> Z.of_nat b < B ->
    disjoint (row (o_enc o) B (Z.of_nat j) (Z.of_nat b)) (row (o_pred o) B (Z.of_nat k) (Z.of_nat b)).
Proof. exact P_ijepa_enc_disjoint_from_pred. Qed.
Print Assumptions ijepa_enc_disjoint_from_pred.

(* all encoder rows have one length, all predictor rows have one length (inside or outside the premise) *)
Theorem ijepa_common_length : forall c sizes ctr B tr o,
  jcfg_ok c -> sizes_ok sizes -> 0 <= B -> Forall draw_ok tr -> ijepa_collate c sizes ctr B tr = Ok o ->
  len (o_enc o) = Z.of_nat (jNEnc c) * B /\
  (exists k, common_length k (o_enc o)) /\ (exists k, common_length k (o_pred o)).
Proof. exact P_ijepa_common_length. Qed.
Print Assumptions ijepa_common_length.

(* two calls made at the same step counter (other batch size, other draws, other instance of the same
   configuration) use the same block sizes, and each advances the counter by exactly one *)
Theorem ijepa_size_depends_only_on_step : forall c sizes ctr B1 B2 tr1 tr2 o1 o2,
  ijepa_collate c sizes ctr B1 tr1 = Ok o1 -> ijepa_collate c sizes ctr B2 tr2 = Ok o2 ->
  o_psize o1 = o_psize o2 /\ o_esize o1 = o_esize o2 /\ o_ctr o1 = ctr + 1 /\ o_ctr o2 = ctr + 1.
Proof. exact P_ijepa_size_depends_only_on_step. Qed.
Print Assumptions ijepa_size_depends_only_on_step.

(* inside the premise the first constrained draw is always accepted: exactly two integer draws per mask *)
Theorem ijepa_no_retry_inside_premise : forall c sizes ctr B tr o,
  jcfg_ok c -> sizes_ok sizes -> 0 <= B -> Forall draw_ok tr -> ijepa_collate c sizes ctr B tr = Ok o ->
  premise c (o_psize o) (o_esize o) -> length tr = S (Z.to_nat B * (2 * jNPred c + 2 * jNEnc c)).
Proof. exact P_ijepa_no_retry_inside_premise. Qed.
Print Assumptions ijepa_no_retry_inside_premise.

(* beyond the property (which claims nothing outside its premise): the while-True loop of
   _sample_block_mask_constrained ends after at most len(acceptable_regions) * tries + 1 iterations, whatever is drawn,
   as soon as the encoder block has more than min_keep patches (tries >= 1) - after that many rejections no complement
   is applied any more.  When the block has <= min_keep patches the real loop never ends (observed, classified
   RUNAWAY by the harness). *)
Theorem ijepa_constrained_ends_when_block_exceeds_min_keep : forall fuel c eh ew acc tries tr,
  jcfg_ok c -> Forall draw_ok tr -> 0 <= eh -> 0 <= ew -> 1 <= jTries c -> 0 <= tries -> jMinKeep c < eh * ew ->
  Z.max (len acc * jTries c - tries) 0 + 1 <= Z.of_nat fuel ->
  constrained fuel c eh ew acc tries tr <> OutOfFuel.
Proof. exact constrained_ends. Qed.
Print Assumptions ijepa_constrained_ends_when_block_exceeds_min_keep.

(* beyond the property, OUTSIDE the premise: what the documented relaxation still guarantees.  If
   _sample_block_mask_constrained (entered with the counter tries, acceptable_regions = complements of the predictor
   blocks gs) returns after n rejected iterations - 2 integer draws each - the returned encoder mask shares no patch with
   the FIRST max(num_pred_masks - (tries + n) // self.tries, 0) predictor blocks of the sample: disjointness at relaxation
   level (tries + n) // self.tries. *)
Theorem ijepa_constrained_disjoint_at_relaxation_level : forall fuel c eh ew gs tries tr l tr',
  constrained fuel c eh ew (map (map negb) gs) tries tr = Ok (l, tr') ->
  exists n : nat, length tr = (2 * S n + length tr')%nat /\
    forall g, In g (firstn (Z.to_nat (Z.max (len gs - (tries + Z.of_nat n) / jTries c) 0)) gs) -> disjoint l (nz 0 g).
Proof. exact constrained_relaxed. Qed.
Print Assumptions ijepa_constrained_disjoint_at_relaxation_level.

(* beyond the property: draw-count bound for a WHOLE collate call, inside or outside the premise: as soon as the clamped
   encoder block of the step has more than min_keep patches (tries >= 1), a call on a batch of B samples makes at most
   one seeding + B * (2 * num_pred_masks + num_enc_masks * 2 * (num_pred_masks * tries + 1)) integer draws - so a call
   that exceeds this bound (the harness' RUNAWAY classification) can only occur with an encoder block <= min_keep *)
Theorem ijepa_collate_draw_count_bound : forall c sizes ctr B tr o,
  jcfg_ok c -> sizes_ok sizes -> 0 <= B -> Forall draw_ok tr -> 1 <= jTries c ->
  ijepa_collate c sizes ctr B tr = Ok o ->
  jMinKeep c < fst (o_esize o) * snd (o_esize o) ->
  Z.of_nat (length tr) <=
  1 + B * (2 * Z.of_nat (jNPred c) + Z.of_nat (jNEnc c) * (2 * (Z.of_nat (jNPred c) * jTries c + 1))).
Proof. exact ijepa_collate_draws. Qed.
Print Assumptions ijepa_collate_draw_count_bound.

(* a sequence of calls on ONE collator object, started with counter ctr: the k-th call sees the counter
   ctr + (number of earlier calls that had a ctx), a call with ctx uses the block sizes of that counter value alone
   (not of batch sizes, draws or outputs of earlier calls), advances the counter by one and meets the spec for its own
   batch size; a call without ctx returns nothing *)
Theorem ijepa_every_call_of_a_sequence_meets_spec : forall calls c sizes ctr k has_ctx B tr ctrk r,
  jcfg_ok c -> sizes_ok sizes -> Forall call_ok calls ->
  nth_error calls k = Some (has_ctx, B, tr) ->
  nth_error (ijepa_seq c sizes ctr calls) k = Some (ctrk, r) ->
  ctrk = ctr + nctx (firstn k calls) /\
  (has_ctx = false -> r = None) /\
  (has_ctx = true -> exists o, r = Some o /\ (o_psize o, o_esize o) = block_sizes c sizes ctrk /\
                               o_ctr o = ctrk + 1 /\
                               ijepa_ok c B (o_psize o) (o_esize o) (o_enc o) (o_pred o)).
Proof. exact ijepa_seq_ok. Qed.
Print Assumptions ijepa_every_call_of_a_sequence_meets_spec.

(* ================================================================ both *)
(* the batch is returned as it came; without a ctx nothing is drawn and the step counter does not move *)
Theorem batch_passthrough : forall (A : Type) (batch : A),
  (forall c has_ctx B tr b' r, dino_call c batch has_ctx B tr = Ok (b', r) ->
     b' = batch /\ (has_ctx = false -> r = None /\ tr = [])) /\
  (forall c sizes ctr has_ctx B tr b' ctr' r, ijepa_call c sizes ctr batch has_ctx B tr = Ok (b', ctr', r) ->
     b' = batch /\ (has_ctx = false -> r = None /\ tr = [] /\ ctr' = ctr)).
Proof. exact P_batch_passthrough. Qed.
Print Assumptions batch_passthrough.

(* ======================================================== non-vacuity *)
(* a recorded run of the real DINO collator satisfies every premise and is not trivial *)
Example dino_premises_satisfiable :
  dcfg_ok ex_dcfg /\ Forall draw_ok ex_dtrace /\ dino_collate ex_dcfg 1 ex_dtrace = Ok ex_dout /\
  count_nonempty ex_dout = 1 /\ budget ex_dcfg 1 = 1 /\ map popcount ex_dout = [0; 5] /\ cap ex_dcfg = 6.
Proof. exact (conj ex_dcfg_ok (conj ex_dtrace_ok (conj ex_dino_run ex_dino_nontrivial))). Qed.

(* a recorded run of the real I-JEPA collator satisfies every premise, lies inside the disjointness premise and the
   encoder blocks did lose cells to predictor blocks (8 of 16 left) *)
Example ijepa_premises_satisfiable :
  jcfg_ok ex_jcfg /\ sizes_ok ex_sizes /\ Forall draw_ok ex_jtrace /\
  exists o, ijepa_collate ex_jcfg ex_sizes (-1) 2 ex_jtrace = Ok o /\
    o_enc o = ex_enc /\ o_pred o = ex_pred /\ o_psize o = (2, 2) /\ o_esize o = (4, 4) /\ o_ctr o = 0 /\
    premise ex_jcfg (o_psize o) (o_esize o).
Proof. exact (conj ex_jcfg_ok (conj ex_sizes_ok (conj ex_jtrace_ok ex_ijepa_run))). Qed.

(* recorded sequences of calls on one collator object satisfy the premises of the two sequence theorems: DINO with
   batch sizes 2, (no ctx), 1 - the second batch is smaller; I-JEPA on a non-square 5 x 6 grid with steps 0, -, 1 *)
Example dino_sequence_premises_satisfiable :
  dcfg_ok ex_dcfg /\ Forall call_ok ex_dseq /\ dino_seq ex_dcfg ex_dseq = ex_dseq_out.
Proof. exact (conj ex_dcfg_ok (conj ex_dseq_ok ex_dseq_run)). Qed.

Example ijepa_sequence_premises_satisfiable :
  jcfg_ok ex_jcfg2 /\ sizes_ok ex_sizes2 /\ Forall call_ok ex_jseq /\
  map fst (ijepa_seq ex_jcfg2 ex_sizes2 (-1) ex_jseq) = [-1; 0; 0].
Proof. exact (conj ex_jcfg2_ok (conj ex_sizes2_ok (conj ex_jseq_ok ex_jseq_ctrs))). Qed.
