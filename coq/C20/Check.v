(* Executable comparison of what the real functions did in the sandbox with the model
   (plan / run / crash prefix) and with the spec.  Used by harness/c20.py.

   A case = configuration, initial tree below the sandbox root, and the observed sequence of
   invocations (killed ones and ones that returned), each with the directory-scan order it saw,
   the system calls it completed, what it returned and the tree afterwards. *)
From Coq Require Import List String Bool Arith ZArith.
Import ListNotations.
From KD Require Import C20.Model C20.Spec.

Record obs := {
  o_order : list path;        (* entries in the order in which the call removed them (the scan oracle) *)
  o_sched : list nat;         (* the schedule of the workers (the harness cannot observe it: []) *)
  o_jobs : option (list (list name));   (* the tasks handed to joblib.Parallel (zip names), None = no pool was run *)
  o_torn : option nat;        (* Some n: the call was killed inside a write, n bytes were written (the last event) *)
  o_trace : list ev;          (* the system calls of the calling process that completed (what joblib's workers do is
                                 not observed) *)
  o_ret : option result;      (* None = killed *)
  o_tree : fs;                (* the sandbox afterwards *)
}.

Definition case_t : Type := config * fs * list obs.

Definition ev_eqb (a b : ev) : bool :=
  match a, b with
  | EMkdir p, EMkdir q | ECreate p, ECreate q | EUnlink p, EUnlink q | ERmdir p, ERmdir q => path_eqb p q
  | EWrite p c, EWrite q d => path_eqb p q && content_eqb c d
  | ERename p p', ERename q q' => path_eqb p q && path_eqb p' q'
  | _, _ => false
  end.

Fixpoint list_eqb {A} (f : A -> A -> bool) (a b : list A) : bool :=
  match a, b with
  | [], [] => true
  | x :: a', y :: b' => f x y && list_eqb f a' b'
  | _, _ => false
  end.

Definition fs_eqb (a b : fs) : bool :=
  forallb (fun ke => oentry_eqb (lookup a (fst ke)) (lookup b (fst ke))) a
  && forallb (fun ke => oentry_eqb (lookup a (fst ke)) (lookup b (fst ke))) b.

Definition format_eqb (a b : format) : bool :=
  match a, b with Raw, Raw | Zip, Zip | Zips, Zips => true | _, _ => false end.
Definition result_eqb (a b : result) : bool :=
  Bool.eqb (was_copied a) (was_copied b) && Bool.eqb (was_deleted a) (was_deleted b)
  && match source_format a, source_format b with
     | None, None => true
     | Some x, Some y => format_eqb x y
     | _, _ => false
     end.

(* the state after exactly j completed system calls of the plan; t = Some n: ... and the first n bytes of the
   write that comes next *)
Fixpoint run_events (j : nat) (t : option nat) (ops : list op) (s : fs) : fs * list ev :=
  match ops with
  | [] => (s, [])
  | o :: r =>
      match apply o s with
      | None => (s, [])
      | Some (s1, e1) =>
          if List.length e1 <=? j
          then let '(s2, e2) := run_events (j - List.length e1) t r s1 in (s2, e1 ++ e2)
          else match t with
               | Some n => match tear n o with
                           | Some o' => match apply o' s with Some (s1', e1') => (s1', e1') | None => (s, []) end
                           | None => (s, [])
                           end
               | None => (s, [])
               end
      end
  end.

(* the plan of a call = what the calling process does before the pool, what the workers do, the end marker *)
Definition split3 (c : config) (sched : list nat) (ops : list op) : list op * list op * list op :=
  let k := List.length (worker_ops c sched) in
  let n := List.length ops in
  (firstn (n - k - 2) ops, firstn k (skipn (n - k - 2) ops), skipn (n - 2) ops).

Definition model_jobs (c : config) : option (list (list name)) :=
  if parallel c
  then match c_dir c with Some items => Some (unzip_jobs (c_workers c) (zip_items items)) | None => None end
  else None.

Definition jobs_eqb (a b : option (list (list name))) : bool :=
  match a, b with
  | None, None => true
  | Some x, Some y => list_eqb (list_eqb String.eqb) x y
  | _, _ => false
  end.

(* one observed invocation against the model started from the model state s: Some s' = agrees *)
Definition model_step (c : config) (s : fs) (o : obs) : option fs :=
  match plan c (o_order o) (o_sched o) s with
  | ORaise => None
  | OSkip r =>
      match o_trace o, o_ret o, o_jobs o with
      | [], Some r', None => if result_eqb r r' && fs_eqb s (o_tree o) then Some s else None
      | _, _, _ => None
      end
  | ORun ops r =>
      let '(pre, mid, post) := split3 c (o_sched o) ops in
      match o_ret o with
      | Some r' =>
          match run pre s with
          | Some (s1, e1) =>
              match run mid s1 with
              | Some (s2, _) =>
                  match run post s2 with
                  | Some (s3, e3) =>
                      if result_eqb r r' && list_eqb ev_eqb (e1 ++ e3) (o_trace o) && fs_eqb s3 (o_tree o)
                         && jobs_eqb (o_jobs o) (model_jobs c)
                      then Some s3 else None
                  | None => None
                  end
              | None => None
              end
          | None => None
          end
      | None =>
          let jj := List.length (o_trace o) in
          let j := match o_torn o with Some _ => jj - 1 | None => jj end in
          let '(sa, ea) := run_events j (o_torn o) pre s in
          if List.length ea =? jj
          then (* killed before the pool was started *)
               if list_eqb ev_eqb ea (o_trace o) && fs_eqb sa (o_tree o) && jobs_eqb (o_jobs o) None then Some sa else None
          else (* killed after the pool had returned *)
               match run (pre ++ mid) s with
               | Some (s2, _) =>
                   let '(sb, eb) := run_events (j - List.length ea) (o_torn o) post s2 in
                   if list_eqb ev_eqb (ea ++ eb) (o_trace o) && fs_eqb sb (o_tree o) && jobs_eqb (o_jobs o) (model_jobs c)
                   then Some sb else None
               | None => None
               end
      end
  end.

Fixpoint model_agrees (c : config) (s : fs) (l : list obs) : bool :=
  match l with
  | [] => true
  | o :: r => match model_step c s o with Some s' => model_agrees c s' r | None => false end
  end.

(* ---- the property on what the implementation did (no model involved) ---- *)
Definition present (o : option entry) : bool := match o with Some _ => true | None => false end.
Definition manualb (c : config) (s : fs) : bool := present (lookup s (dst c)) && negb (present (lookup s (smark c))).
Definition doneb (c : config) (s : fs) : bool :=
  present (lookup s (dst c)) && present (lookup s (smark c)) && present (lookup s (emark c)).
Definition is_nil {A} (l : list A) : bool := match l with [] => true | _ => false end.

(* prev = the observed tree before the invocation *)
Definition spec_step (c : config) (s0 prev : fs) (o : obs) : bool :=
  match o_ret o with
  | None => true                                             (* nothing is claimed about a killed call ... *)
  | Some r =>
      (* crash_safe *)
      (if manualb c s0
       then fs_eqb (o_tree o) s0 && result_eqb r nothing_done && is_nil (o_trace o)
       else complete_copyb c (o_tree o))
      (* result_truthful *)
      && (if was_copied r
          then negb (is_nil (o_trace o))
               && match source_format r with Some f => format_eqb f (format_of c) | None => false end
               && Bool.eqb (was_deleted r) (present (lookup prev (dst c)))
          else is_nil (o_trace o) && fs_eqb (o_tree o) prev && result_eqb r nothing_done)
      (* completed_copy_never_redone *)
      && (if doneb c prev then is_nil (o_trace o) && fs_eqb (o_tree o) prev else true)
  end
  (* ... except that it never touches a manual folder or a completed copy either *)
  && (if manualb c s0 || doneb c prev then is_nil (o_trace o) && fs_eqb (o_tree o) prev else true).

Fixpoint spec_holds (c : config) (s0 prev : fs) (l : list obs) : bool :=
  match l with
  | [] => true
  | o :: r => spec_step c s0 prev o && spec_holds c s0 (o_tree o) r
  end.

(* 0 = implementation, model and spec agree; 1 = the model differs from the implementation;
   2 = the spec is false of what the implementation did; 3 = the case is outside the domain (src_ok) *)
Definition check (t : case_t) : nat :=
  let '(c, s0, l) := t in
  if negb (src_ok c) then 3
  else if negb (spec_holds c s0 s0 l) then 2
  else if negb (model_agrees c s0 l) then 1
  else 0.
