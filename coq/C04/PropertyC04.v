From KD Require Import C04.Model C04.Spec.
(* placeholder until Proofs.v exists *)
Theorem placeholder_C04 : True. Proof. exact I. Qed.
Print Assumptions placeholder_C04.
