(* Implementation model of
     kappadata/caching/shared_dict_dataset.py (SharedDictDataset._cached_getitem, dispose)
     kappadata/caching/cached_dataset.py      (CachedDataset.__getitem__: transform after the cache; __len__)
   with /verif/fixes/C19_clear_race.patch applied ([fixed] = true; [fixed] = false is the
   reader of the code BEFORE that patch and is kept only to document what the patch repaired).
   No proofs here.

   The shared dict is an association list (latest binding first).  Every operation on
   the Manager dict proxy (`in`, `[]`, `[]=`, `clear`) is one atomic step, and so is one
   access of the wrapped dataset (a load).  A process (a DataLoader worker / any holder
   of a copy of the dataset object: all copies talk to the same Manager dict) runs a
   program of commands; a schedule is an arbitrary list of process ids, each occurrence
   lets that process perform its next atomic step (nothing happens if it has finished
   or does not exist).

   The wrapped dataset is [base : Z -> option Z]; [None] = the wrapped dataset raises
   (IndexError), which leaves `cached[i]` unchanged and caches nothing.  The post-cache
   transform may be stateful / random: its k-th call in process p is [tf (draws p k)]
   with an arbitrary recorded draw. *)
From Coq Require Import ZArith List Bool.
Import ListNotations.
Open Scope Z_scope.

Definition dict := list (Z * Z).       (* index -> cached raw sample *)

Fixpoint dget (i : Z) (d : dict) : option Z :=
  match d with [] => None | (k, v) :: d' => if i =? k then Some v else dget i d' end.
Definition dset (i v : Z) (d : dict) : dict := (i, v) :: d.

Inductive cmd :=
| CGet (i : Z)       (* cached[i] *)
| CClear             (* cached.dispose()  (= shared_dict.clear()) *)
| CLen.              (* len(cached) *)

(* where a process stands inside `cached[i]` *)
Inductive pcs :=
| PStart                 (* between commands *)
| PMiss (i : Z)          (* about to run `sample = self.dataset[idx]` *)
| PSet (i v : Z)         (* about to run `self.shared_dict[idx] = sample` and return *)
| PHit (i : Z).          (* `idx not in self.shared_dict` was False: about to run `self.shared_dict[idx]` *)

Inductive res :=
| RVal (v : Z)           (* the transformed sample *)
| RKeyError              (* KeyError out of cached[i] *)
| RBaseError.            (* the wrapped dataset's own exception out of cached[i] *)

(* observable events, in global order.  [ERet p i k r]: process p's cached[i] returned r; k = number of
   transform calls p made before this access *)
Inductive ev :=
| ELoad (p : nat) (i : Z)
| EClear (p : nat)
| ERet (p : nat) (i : Z) (k : nat) (r : res)
| ELen (p : nat) (n : Z).

Record proc := { pc : pcs; todo : list cmd; nacc : nat }.
Record state := { sd : dict; procs : list proc; log : list ev }.

Fixpoint set_nth {A} (n : nat) (a : A) (l : list A) : list A :=
  match l, n with
  | [], _ => []
  | _ :: r, O => a :: r
  | x :: r, S n' => x :: set_nth n' a r
  end.

Definition is_start (c : pcs) : bool := match c with PStart => true | _ => false end.

Section Sem.
  Variable fixed : bool.             (* true = the KeyError fallback of the repaired code *)
  Variable base : Z -> option Z.     (* the wrapped dataset *)
  Variable blen : Z.                 (* len(wrapped dataset) *)
  Variable tf : Z -> Z -> Z.         (* the post-cache transform: draw -> sample -> sample *)
  Variable draws : nat -> nat -> Z.  (* draw of the k-th transform call of process p *)

  (* one atomic step of process p *)
  Definition pstep (p : nat) (d : dict) (pr : proc) : dict * proc * list ev :=
    let k := nacc pr in
    match pc pr, todo pr with
    | PStart, [] => (d, pr, [])
    | PStart, CClear :: r => ([], {| pc := PStart; todo := r; nacc := k |}, [EClear p])   (* shared_dict.clear() *)
    | PStart, CLen :: r => (d, {| pc := PStart; todo := r; nacc := k |}, [ELen p blen])   (* len(self.dataset) *)
    | PStart, CGet i :: _ =>                                                             (* idx not in self.shared_dict *)
        match dget i d with
        | Some _ => (d, {| pc := PHit i; todo := todo pr; nacc := k |}, [])
        | None => (d, {| pc := PMiss i; todo := todo pr; nacc := k |}, [])
        end
    | PMiss i, r =>                                                                      (* sample = self.dataset[idx] *)
        match base i with
        | Some v => (d, {| pc := PSet i v; todo := r; nacc := k |}, [ELoad p i])
        | None => (d, {| pc := PStart; todo := tl r; nacc := k |}, [ELoad p i; ERet p i k RBaseError])
        end
    | PSet i v, r =>                                        (* self.shared_dict[idx] = sample; return transform(sample) *)
        (dset i v d, {| pc := PStart; todo := tl r; nacc := S k |}, [ERet p i k (RVal (tf (draws p k) v))])
    | PHit i, r =>                                                                       (* sample = self.shared_dict[idx] *)
        match dget i d with
        | Some v => (d, {| pc := PStart; todo := tl r; nacc := S k |}, [ERet p i k (RVal (tf (draws p k) v))])
        | None => if fixed
                  then (d, {| pc := PMiss i; todo := r; nacc := k |}, [])                 (* except KeyError: load *)
                  else (d, {| pc := PStart; todo := tl r; nacc := k |}, [ERet p i k RKeyError])  (* BEFORE the fix *)
        end
    end.

  Definition step (s : state) (p : nat) : state :=
    match nth_error (procs s) p with
    | None => s
    | Some pr => let '(d', pr', evs) := pstep p (sd s) pr in
                 {| sd := d'; procs := set_nth p pr' (procs s); log := log s ++ evs |}
    end.

  (* any schedule *)
  Definition run (sched : list nat) (s : state) : state := fold_left step sched s.

  Definition init (d0 : dict) (progs : list (list cmd)) : state :=
    {| sd := d0; procs := map (fun pg => {| pc := PStart; todo := pg; nacc := O |}) progs; log := [] |}.

  (* Sequential histories: a list of (process, command); each command is handed to its process
     and that process alone is scheduled until the command has returned.  A command takes at
     most 4 atomic steps (membership test, failed lookup, load, store). *)
  Definition at_start (s : state) (p : nat) : bool :=
    match nth_error (procs s) p with Some pr => is_start (pc pr) | None => true end.

  Fixpoint finish (fuel : nat) (s : state) (p : nat) : state :=
    match fuel with
    | O => s
    | S f => if at_start s p then s else finish f (step s p) p
    end.

  Definition push (s : state) (p : nat) (c : cmd) : state :=
    match nth_error (procs s) p with
    | None => s
    | Some pr => {| sd := sd s;
                    procs := set_nth p {| pc := pc pr; todo := todo pr ++ [c]; nacc := nacc pr |} (procs s);
                    log := log s |}
    end.

  Definition do_cmd (s : state) (pc : nat * cmd) : state :=
    finish 3 (step (push s (fst pc) (snd pc)) (fst pc)) (fst pc).

  Definition seq_exec (n : nat) (hist : list (nat * cmd)) : state :=
    fold_left do_cmd hist (init [] (repeat [] n)).
End Sem.
