(* C08 - seeded sample wrappers: access sequences and wrapper stacks on top of RngGraph.v.
   MODEL + SPEC only, no proofs (ProofsC08.v has them).

   RngGraph.v already has the wrapper descriptors (wdesc), `getitem_state` (what serving item i leaves in
   the transform slots: the per-item generator default_rng(seed+i), injected behind the isinstance guard)
   and `getitem_draws` (where the draws made while serving item i come from).  Here:
     - an ACCESS SEQUENCE of one wrapper object: every request is tagged with the index it serves;
     - a STACK of seeded wrapper layers (seeded wrapper above / below other wrappers): each layer has its own
       seed, its own wrapper object and its own sequence of indices at which its per-item code ran (an index
       remapping wrapper in between - subset, shuffle, the partner lookup of the mix wrapper - only changes
       WHICH indices a lower layer sees, which is recorded, not assumed). *)
From Coq Require Import ZArith List Bool String.
Import ListNotations.
From KD Require Import C07.RngGraph.
Open Scope Z_scope.

(* all draws of a sequence of requests, each tagged with the index that was being served *)
Fixpoint seq_draws (tbl : table) (wt : wtable) (seed : Z) (idxs : list Z) (w : wobj) : list (Z * prov) :=
  match idxs with
  | [] => []
  | i :: rest =>
      map (fun q => (i, q)) (getitem_draws tbl wt seed i w)
        ++ seq_draws tbl wt seed rest (getitem_state tbl wt seed i w)
  end.

(* one seeded layer of a wrapper stack: base seed, wrapper object, indices its per-item code is run at (in order) *)
Definition layer : Type := (Z * wobj * list Z)%type.

Definition layer_draws (tbl : table) (wt : wtable) (l : layer) : list (Z * Z * prov) :=
  let '(seed, w, idxs) := l in map (fun iq : Z * prov => (seed, fst iq, snd iq)) (seq_draws tbl wt seed idxs w).

(* every draw made anywhere in the stack, tagged (layer seed, index served by that layer, provenance) *)
Definition stack_seq_draws (tbl : table) (wt : wtable) (ls : list layer) : list (Z * Z * prov) :=
  flat_map (layer_draws tbl wt) ls.

Definition layers_wf (tbl : table) (wt : wtable) (ls : list layer) : bool :=
  forallb (fun l : layer => wwf tbl wt (snd (fst l))) ls.

(* the wrapper object without its generator slots (what two independently constructed instances, or the copies
   held by different dataloader workers, have in common) *)
Definition werase (w : wobj) : wobj :=
  match w with WObj c kids => WObj c (map (fun fk : string * list tree => (fst fk, map erase (snd fk))) kids) end.

(* preorder slots of a wrapper object (correspondence check) *)
Definition wslots (w : wobj) : list (option prov) :=
  match w with WObj _ kids => flat_map (fun fk : string * list tree => flat_map slots (snd fk)) kids end.
