(* C17 — non-vacuity witnesses: two runs of the real collators (recorded by harness/c17.py, KD_REPO at the repaired
   tree) on which every premise of the theorems of Property.v holds and the model returns the observed output. *)
From Coq Require Import ZArith List Bool Lia Permutation.
Import ListNotations.
From KD Require Import C17.Model C17.Spec.
Open Scope Z_scope.

(* KDDinoMaskCollator(mask_ratio=(0.25, 0.5), mask_prob=0.5, mask_size=(3, 4), num_views=2, min_num_patches=2),
   batch of one sample, rng = default_rng(811171) *)
Definition ex_dcfg : dcfg :=
  {| dH := 3; dW := 4; dV := 2; dMinP := 2; dPn := 1; dPd := 2; dRn := 1; dRd := 2 |}.

Definition ex_dtrace : list draw :=
  [DUnif (1, 4) (1, 2) (8232475950278611, 18014398509481984);
   DUnif (2, 1) (5, 1) (5371151176581793, 1125899906842624);
   DUnif (-5422211472926497, 4503599627370496) (5422211472926497, 4503599627370496)
         (-108647772462797, 4503599627370496);
   DRound 2; DRound 2; DInt 0 2 1; DInt 0 3 1;
   DUnif (1, 1) (2, 1) (4392189090328865, 2251799813685248);
   DUnif (-5422211472926497, 4503599627370496) (5422211472926497, 4503599627370496)
         (-42783347908769, 2251799813685248);
   DRound 1; DRound 1; DInt 0 3 0; DInt 0 4 3;
   DPerm [1%nat; 0%nat]].

Definition ex_dout : list mask :=
  [[[false; false; false; false]; [false; false; false; false]; [false; false; false; false]];
   [[false; false; false; true]; [false; true; true; false]; [false; true; true; false]]].

Lemma ex_dcfg_ok : dcfg_ok ex_dcfg.
Proof. unfold dcfg_ok; simpl; lia. Qed.

Lemma ex_dtrace_ok : Forall draw_ok ex_dtrace.
Proof.
  unfold ex_dtrace. repeat (apply Forall_cons; [unfold draw_ok, rat_le; simpl; try lia|]).
  - apply perm_swap.
  - apply Forall_nil.
Qed.

Lemma ex_dino_run : dino_collate ex_dcfg 1 ex_dtrace = Ok ex_dout.
Proof. vm_compute. reflexivity. Qed.

(* the run is not trivial: one non-empty mask (= the budget), 5 masked patches, cap 6 *)
Lemma ex_dino_nontrivial : count_nonempty ex_dout = 1 /\ budget ex_dcfg 1 = 1 /\
                           map popcount ex_dout = [0; 5] /\ cap ex_dcfg = 6.
Proof. vm_compute. repeat split; reflexivity. Qed.

(* KDIjepaMaskCollator(input_size=5, patch_size=1, encoder_mask_scale=0.7, predictor_mask_scale=0.15,
   predictor_aspect_ratio=1.0, num_enc_masks=1, num_pred_masks=2, min_keep=2, tries=2), first call, batch of two,
   rng = default_rng(916315): 2x2 predictor blocks, 4x4 encoder block, 16 - 2*4 > 2 *)
Definition ex_jcfg : jcfg :=
  {| jH := 5; jW := 5; jNEnc := 1%nat; jNPred := 2%nat; jMinKeep := 2; jTries := 2 |}.

Definition ex_sizes : Z -> raw4 := fun _ => (2, 2, 4, 4).

Definition ex_jtrace : list draw :=
  [DSeed 0; DInt 0 3 1; DInt 0 3 2; DInt 0 3 0; DInt 0 3 0; DInt 0 1 0; DInt 0 1 0;
   DInt 0 3 1; DInt 0 3 0; DInt 0 3 2; DInt 0 3 2; DInt 0 1 0; DInt 0 1 0].

Definition ex_enc : list (list Z) := [[2; 3; 10; 11; 15; 16; 17; 18]; [0; 1; 2; 3; 7; 8; 15; 16]].
Definition ex_pred : list (list Z) := [[7; 8; 12; 13]; [5; 6; 10; 11]; [0; 1; 5; 6]; [12; 13; 17; 18]].

Lemma ex_jcfg_ok : jcfg_ok ex_jcfg.
Proof. unfold jcfg_ok; simpl; lia. Qed.

Lemma ex_sizes_ok : sizes_ok ex_sizes.
Proof. intros s. simpl. lia. Qed.

Lemma ex_jtrace_ok : Forall draw_ok ex_jtrace.
Proof. unfold ex_jtrace. repeat (apply Forall_cons; [simpl; try lia; exact I|]). apply Forall_nil. Qed.

Lemma ex_ijepa_run : exists o, ijepa_collate ex_jcfg ex_sizes (-1) 2 ex_jtrace = Ok o /\
  o_enc o = ex_enc /\ o_pred o = ex_pred /\ o_psize o = (2, 2) /\ o_esize o = (4, 4) /\ o_ctr o = 0 /\
  premise ex_jcfg (o_psize o) (o_esize o).
Proof.
  eexists. split; [vm_compute; reflexivity|]. simpl. repeat split.
Qed.

(* ------------------------------------------------------------------ sequences of calls on one collator object *)
(* KDDinoMaskCollator(mask_ratio=(0.25, 0.5), mask_prob=0.5, mask_size=(3, 4), num_views=2, min_num_patches=2): a batch
   of two (tensor x), a call without ctx, a batch of one (x as list of views) - budgets 2, -, 1 *)
Definition ex_dseq : list (bool * Z * list draw) :=
  [(true, 2,
    [DUnif (1, 4) (3, 8) (3184018894412277, 9007199254740992);
     DUnif (2, 1) (4, 1) (8662734777899223, 2251799813685248);
     DUnif (-5422211472926497, 4503599627370496) (5422211472926497, 4503599627370496) (-108647772462797, 4503599627370496);
     DRound 2; DRound 2; DInt 0 2 1; DInt 0 3 1;
     DUnif (3, 8) (1, 2) (8895788717699361, 18014398509481984);
     DUnif (2, 1) (5, 1) (489249789420845, 140737488355328);
     DUnif (-5422211472926497, 4503599627370496) (5422211472926497, 4503599627370496) (4445842825659175, 4503599627370496);
     DRound 3; DRound 1;
     DUnif (2, 1) (5, 1) (2511962333630175, 562949953421312);
     DUnif (-5422211472926497, 4503599627370496) (5422211472926497, 4503599627370496) (-8634119748761027, 9007199254740992);
     DRound 1; DRound 3; DInt 0 3 0; DInt 0 2 1;
     DUnif (2, 1) (2, 1) (2, 1);
     DUnif (-5422211472926497, 4503599627370496) (5422211472926497, 4503599627370496) (-3372782405691929, 4503599627370496);
     DRound 1; DRound 2; DInt 0 3 2; DInt 0 3 1;
     DPerm [0%nat; 2%nat; 1%nat; 3%nat]]);
   (false, 1, []);
   (true, 1,
    [DUnif (1, 4) (1, 2) (7276673324164023, 18014398509481984);
     DUnif (2, 1) (4, 1) (4042298524172493, 1125899906842624);
     DUnif (-5422211472926497, 4503599627370496) (5422211472926497, 4503599627370496) (1597910237209305, 4503599627370496);
     DRound 2; DRound 2; DInt 0 2 1; DInt 0 3 2;
     DPerm [1%nat; 0%nat]])].

Definition bits (rows : list (list Z)) : mask := map (map (fun z => negb (z =? 0))) rows.

Definition ex_dseq_out : list (res (unit * option (list mask))) :=
  [Ok (tt, Some [bits [[0;0;0;0]; [0;1;1;0]; [0;1;1;0]]; bits [[0;0;0;0]; [0;0;0;0]; [0;0;0;0]];
                 bits [[0;1;1;1]; [0;0;0;0]; [0;1;1;0]]; bits [[0;0;0;0]; [0;0;0;0]; [0;0;0;0]]]);
   Ok (tt, None);
   Ok (tt, Some [bits [[0;0;0;0]; [0;0;0;0]; [0;0;0;0]]; bits [[0;0;0;0]; [0;0;1;1]; [0;0;1;1]]])].

Lemma ex_dseq_ok : Forall (fun cl => 0 <= snd (fst cl) /\ Forall draw_ok (snd cl)) ex_dseq.
Proof.
  assert (T : forall B tr, 0 <= B -> Forall draw_ok tr -> (fun cl : bool * Z * list draw => 0 <= snd (fst cl) /\ Forall draw_ok (snd cl)) (true, B, tr))
    by (intros; split; assumption).
  unfold ex_dseq. apply Forall_cons; [|apply Forall_cons; [|apply Forall_cons; [|apply Forall_nil]]].
  - apply T; [lia|]. repeat (apply Forall_cons; [unfold draw_ok, rat_le; simpl; try lia|]); try apply Forall_nil.
    apply perm_skip. apply perm_swap.
  - simpl. split; [lia|apply Forall_nil].
  - apply T; [lia|]. repeat (apply Forall_cons; [unfold draw_ok, rat_le; simpl; try lia|]); try apply Forall_nil.
    apply perm_swap.
Qed.

Lemma ex_dseq_run : dino_seq ex_dcfg ex_dseq = ex_dseq_out.
Proof. vm_compute. reflexivity. Qed.

(* KDIjepaMaskCollator(input_size=(5, 6), patch_size=1, encoder_mask_scale=0.7, predictor_mask_scale=0.15,
   predictor_aspect_ratio=1.0, num_enc_masks=1, num_pred_masks=2, min_keep=2, tries=2) on a NON-SQUARE 5 x 6 grid: a batch
   of two (step 0), a call without ctx (no step), a batch of one (step 1); 2x2 predictor blocks, 4x5 encoder block *)
Definition ex_jcfg2 : jcfg :=
  {| jH := 5; jW := 6; jNEnc := 1%nat; jNPred := 2%nat; jMinKeep := 2; jTries := 2 |}.
Definition ex_sizes2 : Z -> raw4 := fun _ => (2, 2, 5, 5).

Definition ex_jseq : list (bool * Z * list draw) :=
  [(true, 2, [DSeed 0; DInt 0 3 1; DInt 0 4 2; DInt 0 3 0; DInt 0 4 0; DInt 0 1 0; DInt 0 1 0;
              DInt 0 3 1; DInt 0 4 0; DInt 0 3 2; DInt 0 4 3; DInt 0 1 0; DInt 0 1 0]);
   (false, 1, []);
   (true, 1, [DSeed 1; DInt 0 3 0; DInt 0 4 1; DInt 0 3 2; DInt 0 4 0; DInt 0 1 0; DInt 0 1 0])].

Lemma ex_jseq_ok : Forall (fun cl => 0 <= snd (fst cl) /\ Forall draw_ok (snd cl)) ex_jseq.
Proof.
  unfold ex_jseq. apply Forall_cons; [|apply Forall_cons; [|apply Forall_cons; [|apply Forall_nil]]].
  - split; [simpl; lia|]. simpl snd. repeat (apply Forall_cons; [simpl; try lia; exact I|]). apply Forall_nil.
  - simpl. split; [lia|apply Forall_nil].
  - split; [simpl; lia|]. simpl snd. repeat (apply Forall_cons; [simpl; try lia; exact I|]). apply Forall_nil.
Qed.

Lemma ex_jseq_run :
  map (fun r => (fst r, match snd r with Some o => Some (o_ctr o, o_psize o, o_esize o, o_enc o, o_pred o) | None => None end))
      (ijepa_seq ex_jcfg2 ex_sizes2 (-1) ex_jseq) =
  [(-1, Some (0, (2, 2), (4, 5), [[2; 3; 4; 10; 12; 13; 16; 18; 19; 20; 21; 22]; [0; 1; 2; 3; 4; 8; 9; 10; 14; 18; 19; 20]],
              [[8; 9; 14; 15]; [6; 7; 12; 13]; [0; 1; 6; 7]; [15; 16; 21; 22]]));
   (0, None);
   (0, Some (1, (2, 2), (4, 5), [[0; 3; 4; 6; 9; 10; 14; 15; 16; 20; 21; 22]], [[1; 2; 7; 8]; [12; 13; 18; 19]]))].
Proof. vm_compute. reflexivity. Qed.

Lemma ex_jcfg2_ok : jcfg_ok ex_jcfg2.
Proof. unfold jcfg_ok; simpl; lia. Qed.
Lemma ex_sizes2_ok : sizes_ok ex_sizes2.
Proof. intros s. simpl. lia. Qed.
Lemma ex_jseq_ctrs : map fst (ijepa_seq ex_jcfg2 ex_sizes2 (-1) ex_jseq) = [-1; 0; 0].
Proof. vm_compute. reflexivity. Qed.
