(* Implementation model of
     kappadata/caching/shared_dict_dataset.py (SharedDictDataset._cached_getitem, dispose)
     kappadata/caching/cached_dataset.py      (CachedDataset.__getitem__: transform after the cache)
   with /verif/fixes/C19_clear_race.patch applied ([fixed] = true; false = the code before the patch).
   No proofs here.

   The shared dict is an association list (latest binding first).  Every operation
   on the Manager dict proxy (`in`, `[]`, `[]=`, `clear`) is one atomic step, and so
   is one access of the wrapped dataset (a load).  A process runs a program of
   commands; a schedule is an arbitrary list of process ids, each occurrence lets
   that process perform its next atomic step (nothing happens if it has finished or
   does not exist). *)
From Coq Require Import ZArith List Bool.
Import ListNotations.
Open Scope Z_scope.

Definition dict := list (Z * Z).       (* index -> cached raw sample *)

Fixpoint dget (i : Z) (d : dict) : option Z :=
  match d with [] => None | (k, v) :: d' => if i =? k then Some v else dget i d' end.
Definition dset (i v : Z) (d : dict) : dict := (i, v) :: d.

Inductive cmd := CGet (i : Z) | CClear.      (* cached[i]  |  cached.dispose() *)

(* where a process stands inside `cached[i]` *)
Inductive pcs :=
| PStart                 (* between commands *)
| PMiss (i : Z)          (* about to run `sample = self.dataset[idx]` *)
| PSet (i v : Z)         (* about to run `self.shared_dict[idx] = sample` and return *)
| PHit (i : Z).          (* `idx not in self.shared_dict` was False: about to run `self.shared_dict[idx]` *)

Inductive res := RVal (v : Z) | RKeyError.
Inductive ev := ELoad (p : nat) (i : Z) | EClear (p : nat) | ERet (p : nat) (i : Z) (r : res).

Record proc := { pc : pcs; todo : list cmd }.

Section Sem.
  Variable fixed : bool.            (* the KeyError fallback of the repaired code *)
  Variable base : Z -> Z.           (* the wrapped dataset *)
  Variable tf : Z -> Z.             (* the post-cache transform *)

  (* one atomic step of process p *)
  Definition pstep (p : nat) (d : dict) (pr : proc) : dict * proc * list ev :=
    match pc pr, todo pr with
    | PStart, [] => (d, pr, [])
    | PStart, CClear :: r => ([], {| pc := PStart; todo := r |}, [EClear p])       (* shared_dict.clear() *)
    | PStart, CGet i :: _ =>                                                      (* idx not in shared_dict *)
        match dget i d with
        | Some _ => (d, {| pc := PHit i; todo := todo pr |}, [])
        | None => (d, {| pc := PMiss i; todo := todo pr |}, [])
        end
    | PMiss i, _ => (d, {| pc := PSet i (base i); todo := todo pr |}, [ELoad p i]) (* sample = dataset[idx] *)
    | PSet i v, r =>                                                              (* shared_dict[idx] = sample; return transform(sample) *)
        (dset i v d, {| pc := PStart; todo := tl r |}, [ERet p i (RVal (tf v))])
    | PHit i, r =>                                                                (* sample = shared_dict[idx] *)
        match dget i d with
        | Some v => (d, {| pc := PStart; todo := tl r |}, [ERet p i (RVal (tf v))])
        | None => if fixed then (d, {| pc := PMiss i; todo := r |}, [])            (* except KeyError: load *)
                  else (d, {| pc := PStart; todo := tl r |}, [ERet p i RKeyError]) (* KeyError leaves cached[i] *)
        end
    end.

  Record state := { sd : dict; procs : list proc; log : list ev }.

  Fixpoint set_nth {A} (n : nat) (a : A) (l : list A) : list A :=
    match l, n with
    | [], _ => []
    | _ :: r, O => a :: r
    | x :: r, S n' => x :: set_nth n' a r
    end.

  Definition step (s : state) (p : nat) : state :=
    match nth_error (procs s) p with
    | None => s
    | Some pr => let '(d', pr', evs) := pstep p (sd s) pr in
                 {| sd := d'; procs := set_nth p pr' (procs s); log := log s ++ evs |}
    end.

  (* any schedule *)
  Definition run (sched : list nat) (s : state) : state := fold_left step sched s.

  Definition init (d0 : dict) (progs : list (list cmd)) : state :=
    {| sd := d0; procs := map (fun pg => {| pc := PStart; todo := pg |}) progs; log := [] |}.

  (* a sequential history: one process (id 0) runs each command to completion; an access
     takes at most 4 atomic steps (contains, get, load, set), further steps do nothing *)
  Definition exec_cmd (d : dict) (c : cmd) : dict * list ev :=
    let s := run [0; 0; 0; 0]%nat {| sd := d; procs := [{| pc := PStart; todo := [c] |}]; log := [] |} in
    (sd s, log s).

  Fixpoint seq_run (d : dict) (prog : list cmd) : dict * list ev :=
    match prog with
    | [] => (d, [])
    | c :: r => let '(d1, e1) := exec_cmd d c in
                let '(d2, e2) := seq_run d1 r in (d2, e1 ++ e2)
    end.
End Sem.
