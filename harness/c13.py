"""C13 — class-balanced, semi-supervised and weighted samplers compose epochs as promised."""
import json
from collections import Counter

from . import pgroup as PG
from . import samplers as S
from .common import C, Nat, Opt, Raw, Rec, coq

ID = "C13"
COQ_FILES = ["C12/Model.v", "C12/Spec.v", "C12/Proofs.v",
             "C13/Model.v", "C13/Spec.v", "C13/Check.v", "C13/ProofsCB.v", "C13/ProofsSemi.v", "C13/ProofsW.v",
             "C13/ProofsModes.v", "C13/Proofs.v", "C13/ProofsRanks.v", "C13/Reflect.v", "C13/Property.v"]
COQ_PRELUDE = ("From Coq Require Import ZArith List Bool.\nImport ListNotations.\n"
               "From KD Require Import C12.Model C12.Spec C13.Model C13.Spec C13.Check.\n")
COQ_CHECK = "check"
COQ_CASE_TYPE = "case_t"
SHARD = 120
ALLOWED_AXIOMS = []
TRUSTED = [
    "hand-written models: coq/C12/Model.v (ClassBalancedSampler incl. the repaired constructor, WeightedSampler) and "
    "coq/C13/Model.v (SemiSampler: constructor assertions, effective_length, the two lazily refilled permutation "
    "iterators on one generator); tied to KD_REPO by this run's correspondence evaluation (stream, len, manual_seed "
    "arguments and requested draw sizes of every rank compared, recorded draws replayed)",
    "oracle contracts: torch.randperm(n) is a permutation of 0..n-1; torch.multinomial(w, E, replacement=False) with "
    "E <= #positive weights returns E distinct indices < len(w) (both checked on every recorded draw); a "
    "torch.Generator is a deterministic function of its seed and the requests made on it",
    "SemiSampler: the two Tensor.random_() values (rank seed, epoch seed) are recorded inputs of the model; that ranks "
    "get distinct generator seeds is observed on every case (all ranks of W <= 5, and ranks 0..63 once per run), "
    "not proved",
    "REMARK (no violation of C13's text, which asks for differently seeded streams per rank of ONE epoch): the generator "
    "seed is seed + f(rank) + f(epoch) with the same f, hence symmetric: rank a in epoch b replays rank b in epoch a "
    "(proved for every f: semi_rank_epoch_swap_replays; measured every run and printed in input_distribution, e.g. "
    "seed 5, W 3: (rank 1, epoch 2) and (rank 2, epoch 1) both seed 3663679698 and emit the same stream).  The code's "
    "own comment says the random offsets are there to avoid exactly that coincidence of seed + epoch + rank; they do "
    "not.  Changing the derivation changes every pinned index sequence of tests_unit/samplers/test_semi_sampler.py, so "
    "it is reported, not repaired",
    "one sampler object over a call sequence (set_epoch(e) / list(sampler) in any order, list(sampler) again without "
    "set_epoch, back to an earlier epoch): model = set_epoch assigns self.epoch, __iter__ assigns nothing "
    "(semi_object_history and C12's *_object_history); tied to the code by one real object of a random rank per case, "
    "replayed in Coq with draw / random_ oracles keyed by the generator seeds",
    "default rank / world_size arguments (SemiSampler, ClassBalancedSampler, WeightedSampler): model = explicit argument, "
    "else the process group's value AT CONSTRUCTION, else (0, 1) (C12.Model.resolve_rank_world, C13.Model.semi_built), "
    "independent of earlier queries; tied to the code by PROCESS-GROUP HISTORIES (harness/pgroup.py; see C12's trusted "
    "base: processes forked from a pristine server, 'sim' = torch.distributed's is_available / is_initialized / get_rank "
    "/ get_world_size simulated in one process, 'gloo' = 2..3 real processes in real gloo groups with file rendezvous): "
    "every sampler built in a history is compared (stream, len, generator seeds incl. the rank seed, draws) with the "
    "sampler built with the explicit (rank, world size) in the harness process, and replayed in Coq",
    "ENVIRONMENT of the process (launcher variables RANK / WORLD_SIZE / LOCAL_RANK / SLURM_PROCID / ...): not part of the "
    "model; half of the generated process-group histories and 5 directed ones per kind run in fresh processes with such "
    "variables set (see C12's trusted base)",
    "label REPRESENTATION and dataset interface: the model takes the labels as a list of integers; tied to the code by "
    "datasets whose getall_class hands out list / numpy array / torch tensor of int64, int32, int16, int8, uint8 (where the "
    "values fit) and datasets without getall_class (getitem_class sample by sample): every such run is compared with the "
    "model AND with the run of the same layout, seed and epoch on a list of python ints; narrow dtypes are also run on "
    "layouts with n * (C - 1) beyond the dtype's range (uint8 / int8: n 33..400, int16: ~100 classes, n = 400; thorough "
    "n ..1200); int32 overflow (n * C > 2^31) is out of reach of a test and not covered",
    "CONSTRUCTION HISTORIES on one dataset object (model: a sampler is a function of the labels at ITS construction): a "
    "dataset (with / without getall_class) holds labels B; ClassBalancedSampler / SemiSampler / getall_as_tensor is "
    "applied to it and iterated; the labels are changed in place (list slice assignment; same or other length); the "
    "case's sampler is built on the same object for every rank and compared (stream, len, seeds, draws) with the "
    "sampler on a pristine dataset of the current labels, and replayed in Coq against the model of the current labels; "
    "relabelling by REBINDING attributes or through wrappers/other items than 'class' is not generated",
    "runaway guard: a sampler run is abandoned after %g s of process CPU time (ITIMER_VIRTUAL) or %g s wall "
    "(ITIMER_REAL fallback) or %d draws and reported as 'iteration does not return'" % (S.CPU_LIMIT, S.WALL_LIMIT, S.MAX_DRAWS),
    "harness/samplers.py spies (torch.Generator subclass, wrapped randperm/multinomial/Tensor.random_) and rendering",
    "the boolean spec functions evaluated on the implementation's output are proved to imply the Prop-level spec "
    "(checked_*_spec_sound); the glue around them in Check.spec_holds (equal len on all ranks, len = documented "
    "length // W) is evaluated only and re-stated by the independent Python oracle",
]
ASSUMPTIONS = [
    "world size W >= 1, rank < W; dataset provides getdim_class and getall_class (list / ndarray / tensor of an integer "
    "dtype that holds the labels, -1 = unlabeled) or getitem_class",
    "class-balanced: because the last len % W entries are cut off for distributed runs, 'all ranks together hold exactly "
    "samples_per_class per class' holds for the global draw and for the ranks when W divides C*spc; otherwise the ranks "
    "hold a prefix missing (C*spc) mod W < W entries (ranks_union_is_prefix) and every class between "
    "spc - (C*spc) mod W and spc times (ranks_hold_each_class_up_to_the_cut; the lower bound is attained)",
    "weighted: positive weights for at least `size` entries, 1 <= size <= n or None",
    "semi: pool exhaustion is per rank (each rank cycles through the pools with its own generator); length modes "
    "'labeled'/'unlabeled' for W > 1: a rank visits every sample of that pool at most once and makes floor(q/W)..ceil(q/W) "
    "chunk parts of picks, q = chunks of the whole epoch (all W ranks together therefore visit a sample up to W times)",
]
RULE = ("cb 35% / semi 40% / weighted 25%; label lists of 2..26 entries (thorough ..60) with 2..5 classes, unlabeled (-1) "
        "entries, missing classes and labels >= C; spc None/0/1..13; L,U in 0..4; modes labeled/unlabeled/all/invalid; "
        "W in 1..5, all ranks, epochs None/0..3, seeds 0..999; non-trivial = constructor accepted and a non-empty "
        "stream; distinct by (kind, n, W, epoch, spc|L,U,mode|size, shuffle); every case also drives ONE object of a "
        "random rank through 2..5 list(sampler) calls (set_epoch(e'), back to e, no set_epoch in between); 12% of the cases "
        "also carry a process-group history of 3..10 steps (init as rank r of W / destroy / is_available off-on / rank "
        "queries / throwaway samplers / the case's sampler built with default, explicit or mixed rank and world_size), 70% "
        "simulated in one process, 30% in 2..3 real gloo processes, half of them under a launcher's environment, plus 16 "
        "directed schedules per kind; cb / semi cases: 30% hand out labels as ndarray / tensor of int64..uint8, 12% only "
        "sample by sample (no getall_class), 20% carry a CONSTRUCTION HISTORY (labels B on the object, sampler A built + "
        "iterated, relabelled in place to the case's labels with equal / other length, the case's sampler built on the "
        "same object), plus 68 directed ones (every representation; pseudo-labelling / rotation / longer / shorter x "
        "getall_class yes / no x A in cb / semi / getall) and 18 (thorough 180) WIDE layouts: narrow label dtype with "
        "n * (C - 1) beyond its range (n ..400, thorough ..1200); thorough tier "
        "adds a directed family of 12 large layouts (n ~ 500 semi with 2..90 pool wrap-arounds per rank, n ~ 200 "
        "class-balanced with samples_per_class beyond every pool)")


# ---------------------------------------------------------------------------
# case generation
# ---------------------------------------------------------------------------
def gen_cb(rng, big=False):
    Cn = rng.choice([2, 2, 3, 3, 4, 5])
    n = rng.randint(Cn, 60 if big else 26)
    classes = list(range(Cn)) + [rng.randrange(Cn) for _ in range(n - Cn)]
    if rng.random() < 0.3:   # unbalanced: one dominating class
        dom = rng.randrange(Cn)
        classes = [c if rng.random() < 0.4 else dom for c in classes[Cn:]] + list(range(Cn))
    rng.shuffle(classes)
    q = rng.random()
    if q < 0.06:      # a class is missing
        miss = rng.randrange(Cn)
        classes = [c if c != miss else (miss + 1) % Cn for c in classes]
    elif q < 0.13:    # a class is missing, a label outside 0..C-1 keeps the number of distinct labels (D30)
        miss = rng.randrange(Cn)
        other = rng.choice([-1, Cn, Cn + 2])
        classes = [c if c != miss else other for c in classes]
    elif q < 0.18:    # unlabeled entries on top of a complete layout
        for _ in range(rng.randint(1, 3)):
            classes.append(-1)
        rng.shuffle(classes)
    dim = Cn if Cn > 2 or rng.random() < 0.7 else 1
    return {"kind": "cb", "classes": classes, "dim": dim, "spc": rng.choice([None, None, 0, 1, 2, 3, 4, 5, 8, 13]),
            "shuffle": rng.random() < 0.8, "seed": rng.randrange(1000), "epoch": rng.choice([None, 0, 1, 2, 3]),
            "W": rng.choice([1, 2, 2, 3, 3, 4, 5])}


def gen_semi(rng, big=False):
    n = rng.randint(2, 50 if big else 22)
    p_unl = rng.choice([0.1, 0.15, 0.3, 0.5, 0.7, 0.85, 0.9])
    classes = [-1 if rng.random() < p_unl else rng.randrange(4) for _ in range(n)]
    q = rng.random()
    if q < 0.04:
        classes = [c if c != -1 else 0 for c in classes]      # no unlabeled sample
    elif q < 0.08:
        classes = [-1] * n                                    # no labeled sample
    else:                                                     # make sure both kinds are there
        i, j = rng.sample(range(n), 2)
        classes[i], classes[j] = rng.randrange(4), -1
    L = rng.choice([1, 1, 2, 2, 3, 4, 0] if rng.random() < 0.25 else [1, 1, 2, 3, 4])
    U = rng.choice([1, 1, 2, 2, 3, 4, 0] if rng.random() < 0.25 else [1, 1, 2, 3, 4])
    mode = rng.choice(["labeled", "unlabeled", "all"] * 8 + ["foo"])
    return {"kind": "semi", "classes": classes, "dim": 4, "L": L, "U": U, "mode": mode,
            "seed": rng.randrange(1000), "epoch": rng.choice([None, 0, 1, 2, 3]),
            "W": rng.choice([1, 1, 1, 2, 2, 3, 4, 5])}


def gen_weighted(rng, big=False):
    n = rng.randint(1, 60 if big else 26)
    weights = [rng.choice([0.5, 1.0, 2.0, 3.5, 10.0, 1e-3]) for _ in range(n)]
    size = rng.choice([None, None, rng.randint(1, n), rng.randint(1, n), n + rng.randint(1, 3)])
    if rng.random() < 0.2 and n >= 3:      # some zero weights, still enough positive ones
        E = n if size is None else size
        zeros = rng.sample(range(n), rng.randint(0, max(0, n - E)))
        for z in zeros:
            weights[z] = 0.0
    return {"kind": "weighted", "n": n, "weights": weights, "size": size, "seed": rng.randrange(1000),
            "epoch": rng.choice([None, 0, 1, 2, 3]), "W": rng.choice([1, 2, 2, 3, 3, 4, 5])}


def gen_ops(rng, epoch):
    """call sequence for one sampler object: starts like the per-rank runs (set_epoch(epoch) unless epoch is None, then
    list(sampler)), then a mix of: list(sampler) again without set_epoch, set_epoch(e') + list, set_epoch(epoch) + list"""
    ops = ([] if epoch is None else [["set", epoch]]) + [["iter"]]
    e0 = epoch or 0
    for _ in range(rng.choice([1, 2, 2, 3])):
        q = rng.random()
        if q < 0.35:
            ops.append(["iter"])
        elif q < 0.75:
            ops += [["set", rng.choice([e0 + 1, e0 + 2, rng.randrange(6)])], ["iter"]]
        else:
            ops += [["set", e0], ["iter"]]
    if rng.random() < 0.5:
        ops += [["set", e0], ["iter"]]
    return ops


PG_FRACTION = 0.12     # share of the cases that also carry a process-group history
REP_FRACTION = 0.3     # share of the cb / semi cases whose getall_class hands out an array / tensor of some integer dtype
ITEM_FRACTION = 0.12   # ... whose dataset has no getall_class (sample-wise getitem_class only)
RELABEL_FRACTION = 0.2  # ... that also carry a construction history on one dataset object (relabelled in place)


def with_dataset_dims(rng, c, relabel=RELABEL_FRACTION):
    """label representation, getall_class present or not, construction history on one relabelled dataset object"""
    if c["kind"] not in ("cb", "semi"):
        return c
    q = rng.random()
    if q < REP_FRACTION:
        fits = [r for r in S.REPS[1:] if S.rep_fits(c["classes"], r)]
        c["rep"] = rng.choice(fits)
    elif q < REP_FRACTION + ITEM_FRACTION:
        c["getall"] = False
    if rng.random() < relabel:
        if "rep" not in c and rng.random() < 0.6:
            c["getall"] = False
        pool = sorted(set(c["classes"]) | ({-1} if S.rep_fits([-1], c.get("rep", "list")) else set()))
        c["relabel"] = {"before": S.gen_before(rng, c["classes"], pool), "A": rng.choice(["cb", "semi", "semi", "getall"])
                        if c["kind"] == "semi" else rng.choice(["cb", "cb", "semi", "getall"])}
    return c


def gen_wide(rng, nmax=400, p16=0.13):
    """label arrays of a NARROW integer dtype on datasets large enough that n * C leaves the dtype's range
    (uint8: (C-1) * n >= 256, int8: >= 128, int16: >= 32768 with ~100 classes), n up to nmax"""
    q = rng.random()
    form = rng.choice(["ndarray", "tensor"])
    W = rng.choice([1, 1, 2, 3, 4])
    base = {"seed": rng.randrange(1000), "epoch": rng.choice([None, 0, 2]), "W": W}
    if q < 0.75:
        if q < 0.75 - p16:
            dt = rng.choice(["uint8", "uint8", "int8"])
            Cn = rng.choice([2, 3, 4, 5, 5, 7])
            lim = 256 if dt == "uint8" else 128
            lo = min(nmax, lim // (Cn - 1) + 1)
            n = rng.randint(lo, max(lo, nmax if rng.random() < 0.3 else min(nmax, 3 * lo)))
        else:
            dt, Cn, n = "int16", rng.randint(84, 110), nmax
            n = max(n, 32768 // (Cn - 1) + 1)
        skew = rng.choice([1, 2]) if Cn < 20 else 1
        classes = list(range(Cn)) + [min(Cn - 1, int(rng.random() ** skew * Cn)) for _ in range(n - Cn)]
        rng.shuffle(classes)
        # (~100 classes: one permutation per class and pass over its pool - stay below the draw cap of the runaway guard)
        c = {"kind": "cb", "classes": classes, "dim": Cn, "spc": rng.choice([None, None, 3, 40, 150] if Cn < 20 else [1, 2]),
             "shuffle": rng.random() < 0.8, **base}
        # one permutation per class and pass over its pool: stay well below the draw cap of the runaway guard
        sizes = Counter(classes)
        if sum(-(-(c["spc"] or max(sizes.values())) // k) for k in sizes.values()) > S.MAX_DRAWS // 2:
            c["spc"] = 3
    else:
        dt = rng.choice(["int8", "int8", "int16"])
        n = rng.randint(130, nmax)
        p_unl = rng.choice([0.2, 0.5, 0.8])
        classes = [-1 if rng.random() < p_unl else rng.randrange(4) for _ in range(n)]
        classes[0], classes[1] = 0, -1
        c = {"kind": "semi", "classes": classes, "dim": 4, "L": rng.choice([1, 2, 3]), "U": rng.choice([1, 2, 3]),
             "mode": rng.choice(["labeled", "unlabeled", "all"]), **base}
    c["rep"] = form + ":" + dt
    c["ops"] = [["iter"], ["iter"]] if c["epoch"] is None else [["set", c["epoch"]], ["iter"], ["set", 5], ["iter"]]
    c["ops_rank"] = W - 1
    return c


def gen_case(rng, big=False, pg=PG_FRACTION):
    r = rng.random()
    if r < 0.35:
        c = gen_cb(rng, big)
    elif r < 0.75:
        c = gen_semi(rng, big)
    else:
        c = gen_weighted(rng, big)
    c["ops"] = gen_ops(rng, c["epoch"])
    c["ops_rank"] = rng.randrange(c["W"])
    with_dataset_dims(rng, c)
    if rng.random() < pg:
        c["pg"] = PG.gen_pg(rng, c["kind"], c["epoch"])
    return c


def gen_directed_pg(rng):
    """the plain schedules (build after init; something asked / built before init; destroy and join another group;
    explicit arguments inside a group) for one small sampler of every kind"""
    out = []
    for base in ({"kind": "semi", "classes": [0, -1, 1, -1, -1, 2, 0, -1, 3, -1, -1], "dim": 4, "L": 1, "U": 2,
                  "mode": rng.choice(["labeled", "unlabeled", "all"]), "seed": rng.randrange(1000), "epoch": 1, "W": 2},
                 {"kind": "weighted", "n": 9, "weights": [1.0, 2.0, 0.5] * 3, "size": None, "seed": rng.randrange(1000),
                  "epoch": 1, "W": 2},
                 {"kind": "cb", "classes": [0, 1, 2, 1, 0, 2, 2], "dim": 3, "spc": None, "shuffle": True,
                  "seed": rng.randrange(1000), "epoch": 1, "W": 2}):
        for h in PG.directed(base["kind"], base["epoch"]):
            out.append({**base, "pg": h})
    return out


def gen_large(rng):
    """directed family (thorough tier): pools of 20..375 samples out of n ~ 500 so that a rank wraps around its pools
    several times in one epoch; class-balanced layouts of ~200 samples with samples_per_class beyond every pool"""
    out = []
    for (n, p_unl, L, U, mode, W) in [(500, 0.75, 3, 1, "unlabeled", 1), (500, 0.75, 3, 1, "unlabeled", 3),
                                      (500, 0.04, 1, 4, "labeled", 1), (480, 0.5, 2, 3, "all", 2),
                                      (500, 0.96, 4, 1, "unlabeled", 2), (520, 0.25, 1, 3, "labeled", 4),
                                      (500, 0.9, 2, 2, "unlabeled", 5), (500, 0.1, 4, 4, "labeled", 1)]:
        classes = [-1 if rng.random() < p_unl else rng.randrange(4) for _ in range(n)]
        classes[0], classes[1] = 0, -1
        out.append({"kind": "semi", "classes": classes, "dim": 4, "L": L, "U": U, "mode": mode,
                    "seed": rng.randrange(1000), "epoch": rng.choice([None, 0, 3]), "W": W})
    for (n, Cn, spc, W) in [(200, 4, 150, 1), (200, 5, 97, 3), (160, 3, 200, 4), (240, 2, 301, 2)]:
        classes = list(range(Cn)) + [min(Cn - 1, int(rng.random() ** 2 * Cn)) for _ in range(n - Cn)]
        rng.shuffle(classes)
        out.append({"kind": "cb", "classes": classes, "dim": Cn, "spc": spc, "shuffle": True,
                    "seed": rng.randrange(1000), "epoch": rng.choice([None, 1]), "W": W})
    for c in out:
        c["ops"] = [["iter"], ["iter"]] if c["epoch"] is None else [["set", c["epoch"]], ["iter"], ["set", 9], ["iter"],
                                                                     ["set", c["epoch"]], ["iter"]]
        c["ops_rank"] = c["W"] - 1
    return out


def gen_cases(rng, tier):
    head = gen_directed_pg(rng)
    if tier == "quick":
        return spread(head + gen_directed_ds(rng) + [gen_case(rng) for _ in range(800)],
                      [gen_wide(rng, p16=0.0) for _ in range(16)] + [gen_wide(rng, p16=0.75) for _ in range(2)])
    return spread(head + gen_directed_ds(rng) + [gen_case(rng) for _ in range(4500)]
                  + [gen_case(rng, big=True) for _ in range(1500)],
                  [gen_wide(rng, 400) for _ in range(150)] + [gen_wide(rng, 1200) for _ in range(30)] + gen_large(rng))


def spread(cases, heavy):
    """the large layouts evenly among the others (the Coq evaluation runs in shards of consecutive cases)"""
    step = max(1, len(cases) // (len(heavy) + 1))
    out = []
    for i, c in enumerate(cases):
        out.append(c)
        if (i + 1) % step == 0 and heavy:
            out.append(heavy.pop())
    return out + heavy


def gen_directed_ds(rng):
    """the plain dataset histories: every representation on one small layout per kind; a dataset with / without
    getall_class relabelled in place (same length: pseudo-labelling round; other length) between two samplers"""
    out = []
    cb = {"kind": "cb", "classes": [0, 1, 2, 1, 0, 2, 2, 0, 1, 1], "dim": 3, "spc": rng.choice([None, 5]), "shuffle": True,
          "seed": rng.randrange(1000), "epoch": 1, "W": 2}
    semi = {"kind": "semi", "classes": [0, -1, 1, -1, -1, 2, 0, -1, 3, -1, -1], "dim": 4, "L": 1, "U": 2,
            "mode": rng.choice(["labeled", "unlabeled", "all"]), "seed": rng.randrange(1000), "epoch": 1, "W": 2}
    for base in (cb, semi):
        for r in S.REPS[1:]:
            if S.rep_fits(base["classes"], r):
                out.append({**base, "rep": r})
        out.append({**base, "getall": False})
        n = len(base["classes"])
        pseudo = [c if i % 3 else -1 for i, c in enumerate(base["classes"])]        # some labels were -1 before
        swapped = base["classes"][1:] + base["classes"][:1]
        for getall in (False, True):
            for before in (pseudo, swapped, base["classes"] + [0, -1], base["classes"][:n - 2]):
                for A in ("cb", "semi", "getall"):
                    out.append({**base, "getall": getall, "relabel": {"before": before, "A": A}})
    return out


def search_cases(rng, tier):
    # directed: layouts with an empty class hidden behind a label outside 0..C-1, tiny pools, every length mode
    for classes, dim in ([-1, 0, 0, 2], 3), ([1, 3, 4, 5, 2], 5), ([0, 2], 2), ([0, 0, 1], 2), ([0, 1, 1, 1, 1], 1):
        for spc in (None, 1, 3):
            for W in (1, 2, 3):
                yield {"kind": "cb", "classes": classes, "dim": dim, "spc": spc, "shuffle": True, "seed": 0, "epoch": 0,
                       "W": W}
    for classes in ([0, -1], [0, -1, -1, 1, -1], [0, 1, 2, -1], [-1, -1, 0, -1, 1, -1, -1]):
        for mode in ("labeled", "unlabeled", "all"):
            for L, U in ((1, 1), (2, 1), (1, 3)):
                for W in (1, 2, 3):
                    yield {"kind": "semi", "classes": classes, "dim": 4, "L": L, "U": U, "mode": mode, "seed": 0,
                           "epoch": 0, "W": W}
    for n in (1, 2, 5):
        for W in (1, 2, 3):
            yield {"kind": "weighted", "n": n, "weights": [1.0] * n, "size": None, "seed": 0, "epoch": 0, "W": W}
    for c in gen_directed_pg(rng):
        yield c
    for c in gen_directed_ds(rng):
        yield c
    for _ in range(20000):
        yield gen_wide(rng) if rng.random() < 0.1 else gen_case(rng, big=rng.random() < 0.3, pg=0.4)


def shrink(c):
    if c.get("relabel"):
        yield {k: v for k, v in c.items() if k != "relabel"}
        rl = c["relabel"]
        if rl["A"] != "getall":
            yield {**c, "relabel": {**rl, "A": "getall"}}
        if len(rl["before"]) != len(c["classes"]):
            yield {**c, "relabel": {**rl, "before": (rl["before"] + c["classes"])[:len(c["classes"])]}}
        for i in range(min(len(rl["before"]), len(c["classes"]))):      # fewer entries differ
            if rl["before"][i] != c["classes"][i]:
                yield {**c, "relabel": {**rl, "before": rl["before"][:i] + [c["classes"][i]] + rl["before"][i + 1:]}}
    if c.get("rep", "list") != "list":
        yield {k: v for k, v in c.items() if k != "rep"}
        if c["rep"].startswith("tensor"):
            yield {**c, "rep": "ndarray:" + c["rep"].split(":")[1]}
    if c.get("getall") is False and not c.get("relabel"):
        yield {k: v for k, v in c.items() if k != "getall"}
    if c.get("pg"):
        yield {k: v for k, v in c.items() if k != "pg"}
        for cand in PG.shrink_pg(c["kind"], c["pg"]):
            yield {**c, "pg": cand}
    if c.get("ops"):
        ops = c["ops"]
        yield {k: v for k, v in c.items() if k not in ("ops", "ops_rank")}
        for i in range(len(ops) - 1, 0, -1):
            yield {**c, "ops": ops[:i] + ops[i + 1:]}
        if c.get("ops_rank"):
            yield {**c, "ops_rank": 0}
    if c.get("epoch") not in (None, 0) and not c.get("ops"):
        yield {**c, "epoch": 0}
    if c.get("seed"):
        yield {**c, "seed": 0}
    if c["W"] > 1:
        yield {**c, "W": c["W"] - 1, "ops_rank": min(c.get("ops_rank", 0), c["W"] - 2)}
        yield {**c, "W": 1, "ops_rank": 0}
    if c["kind"] in ("cb", "semi") and len(c["classes"]) > 60:       # large layouts: halves first
        h = len(c["classes"]) // 2
        if not c.get("relabel"):
            yield {**c, "classes": c["classes"][:h]}
            yield {**c, "classes": c["classes"][h:]}
            q = len(c["classes"]) // 8
            for j in range(8):
                yield {**c, "classes": c["classes"][:j * q] + c["classes"][(j + 1) * q:]}
    if c["kind"] in ("cb", "semi"):
        for i in range(len(c["classes"])):
            cand = {**c, "classes": c["classes"][:i] + c["classes"][i + 1:]}
            if c.get("relabel") and i < len(c["relabel"]["before"]):
                b = c["relabel"]["before"]
                cand["relabel"] = {**c["relabel"], "before": b[:i] + b[i + 1:]}
                if cand["relabel"]["before"] == cand["classes"]:
                    continue
            yield cand
    if c["kind"] == "cb":
        if c["spc"] not in (None, 1):
            yield {**c, "spc": 1}
            yield {**c, "spc": None}
    if c["kind"] == "semi":
        if c["L"] > 1:
            yield {**c, "L": c["L"] - 1}
        if c["U"] > 1:
            yield {**c, "U": c["U"] - 1}
    if c["kind"] == "weighted" and c["n"] > 1:
        yield {**c, "n": c["n"] - 1, "weights": c["weights"][:-1],
               "size": None if c["size"] is None else min(c["size"], c["n"] - 1)}
        if c["size"] is not None:
            yield {**c, "size": None}


# ---------------------------------------------------------------------------
# running the real samplers
# ---------------------------------------------------------------------------
def run_rank(case, rank, world, **kw):
    return S.run_rank_guarded(case, rank, world, **kw)


def run_two_epochs(case, rank, world, e0):
    out, ran_away = S.guarded(_run_two_epochs, case, rank, world, e0)
    return "RUNAWAY" if ran_away else out


def _run_two_epochs(case, rank, world, e0):
    """one sampler object iterated for epoch e0 and e0 + 1 (state must not leak between epochs)"""
    out = []
    rec = S.Recorder()
    with rec:
        try:
            s = S.build(case, rank, world)
            for e in (e0, e0 + 1):
                s.set_epoch(e)
                stream = []
                for i in s:
                    stream.append(int(i))
                    if len(stream) > 100000:
                        raise S.Runaway()
                out.append(stream)
        except AssertionError:
            return "AssertionError"
        except S.Runaway:
            return "RUNAWAY"
        except Exception as e:  # noqa
            return type(e).__name__ + ": " + str(e)[:200]
    return out


_RANK_SEEDS = {}


def many_rank_seeds():
    """generator seeds SemiSampler derives for ranks 0..63 at epoch 0 (observed once per run)"""
    if "v" not in _RANK_SEEDS:
        case = {"kind": "semi", "classes": [0, -1], "dim": 4, "L": 1, "U": 1, "mode": "all", "seed": 0, "epoch": 0}
        _RANK_SEEDS["v"] = [run_rank(case, r, 64)["seeds"] for r in range(64)]
    return _RANK_SEEDS["v"]


def run_impl(case):
    W = case["W"]
    obs = {"ranks": []}
    for r in range(W):
        obs["ranks"].append(run_rank(case, r, W))
        if obs["ranks"][-1]["result"] == "RUNAWAY":    # do not wait for the same hang again and again
            obs["G"] = []
            return obs
    e = case["epoch"] or 0
    if case["kind"] != "semi":
        g = run_rank(case, 0, 1)
        obs["G"], obs["G_result"], obs["G_draws"] = g["stream"], g["result"], g["draws"]
    else:
        obs["G"] = []
        obs["many_rank_seeds"] = many_rank_seeds()
    obs["again"] = run_rank(case, W - 1, W)["stream"]
    nxt = run_rank(case, 0, W, epoch=e + 1)
    obs["next"] = {"seeds": nxt["seeds"], "stream": nxt["stream"], "result": nxt["result"]}
    obs["two_epochs"] = run_two_epochs(case, W - 1, W, e)
    obs["next_last"] = run_rank(case, W - 1, W, epoch=e + 1)["stream"]
    # one sampler object: set_epoch sequences, iterated again without set_epoch
    obs["hist"] = None
    if case.get("ops"):
        hr = case.get("ops_rank", 0)
        obs["hist"] = S.run_ops_guarded(case, hr, W, case["ops"])
        obs["fresh"] = {}
        for ep in sorted(set(iter_epochs(case["ops"]))):
            f = run_rank(case, hr, W, epoch=ep)
            obs["fresh"][str(ep)] = {"stream": f["stream"], "result": f["result"]}
    if case["kind"] == "semi":
        obs["swap"] = swap_example()
    # label representation: the int64-list run of the same layout, seed and epoch
    if case.get("rep", "list") != "list" or case.get("getall") is False:
        plain = {k: v for k, v in case.items() if k not in ("rep", "getall")}
        obs["rep_ref"] = [run_rank(plain, r, W) for r in range(W)]
    # construction history on one dataset object that is relabelled in place
    if case.get("relabel"):
        obs["relabel"] = S.run_relabel_guarded(case, W)
    # samplers built with default rank / world_size arguments in processes with a process-group history
    if case.get("pg"):
        obs["pg"] = PG.run_pg(case, case["pg"], run_rank)
    return obs


def iter_epochs(ops):
    """the epoch in force at every list(sampler) call of a fresh object (self.epoch = 0 initially)"""
    cur, out = 0, []
    for op in ops:
        if op[0] == "set":
            cur = op[1]
        else:
            out.append(cur)
    return out


_SWAP = {}


def swap_example():
    """REMARK (measured once per run, not a violation of C13's text): seed + f(rank) + f(epoch) is symmetric, so
    (rank 1, epoch 2) and (rank 2, epoch 1) of a world of 3 seed their generators alike and emit the same stream"""
    if "v" not in _SWAP:
        case = {"kind": "semi", "classes": [0, -1, 1, -1, -1, 2, 0, -1], "dim": 4, "L": 1, "U": 2, "mode": "all",
                "seed": 5, "epoch": 0}
        a = run_rank(case, 1, 3, epoch=2)
        b = run_rank(case, 2, 3, epoch=1)
        _SWAP["v"] = {"seed_rank1_epoch2": a["seeds"][-1] if a["seeds"] else None,
                      "seed_rank2_epoch1": b["seeds"][-1] if b["seeds"] else None,
                      "same_stream": a["stream"] == b["stream"] and a["result"] == "ok", "stream": a["stream"]}
    return _SWAP["v"]


# ---------------------------------------------------------------------------
# the independent Python statement of the property
# ---------------------------------------------------------------------------
def expected_result(case):
    k = case["kind"]
    if k == "cb":
        Cn = max(2, case["dim"])
        return "ok" if set(case["classes"]) == set(range(Cn)) else "AssertionError"
    if k == "semi":
        lab = [c for c in case["classes"] if c != -1]
        ok = (case["L"] >= 1 and case["U"] >= 1 and case["mode"] in ("labeled", "unlabeled", "all")
              and 0 < len(lab) < len(case["classes"]))
        return "ok" if ok else "AssertionError"
    return "AssertionError" if case["size"] is not None and case["size"] > case["n"] else "ok"


def check_blocks(name, pool, picks):
    k = len(pool)
    sp = sorted(pool)
    for b in range(len(picks) // k):
        blk = picks[b * k:(b + 1) * k]
        if sorted(blk) != sp:
            return (f"{name} picks {b * k}..{(b + 1) * k - 1} are {blk}: not a permutation of the {name} pool {pool} "
                    f"(an element is repeated before the pool is exhausted)")
    tail = picks[(len(picks) // k) * k:]
    if len(set(tail)) != len(tail) or not set(tail) <= set(pool):
        return f"the last {name} picks {tail} repeat an element / leave the pool {pool}"
    return None


def oracle(case, obs):
    if "harness_exception" in obs:
        return "harness exception: " + obs["harness_exception"] + obs.get("tb", "")
    msg = oracle0(case, obs)
    if msg is None and obs.get("rep_ref") is not None:
        for r, (o, ref) in enumerate(zip(obs["ranks"], obs["rep_ref"])):
            if not S.same_run(o, ref):
                how = ("handed out sample by sample (no getall_class)" if case.get("getall") is False
                       else "handed out by getall_class as " + case["rep"])
                return (f"rank {r}: the epoch depends on the REPRESENTATION of the labels: labels {how}: len {o['len']}, "
                        f"stream {o['stream']} ({o['result']}); the same labels as a list of python ints: len {ref['len']}, "
                        f"stream {ref['stream']} ({ref['result']})")
    if msg is None and case.get("relabel"):
        msg = S.oracle_relabel(case, obs)
    if msg is None and case.get("pg"):
        msg = PG.oracle_pg(case, case["pg"], obs.get("pg") or {"error": "history not run (a rank ran away)"})
    return msg


def oracle0(case, obs):
    W, k = case["W"], case["kind"]
    ranks = obs["ranks"]
    exp = expected_result(case)
    for r, o in enumerate(ranks):
        if o["result"] == "RUNAWAY":
            return (f"rank {r}: construction succeeds but iteration does not return (more than {S.MAX_DRAWS} draws "
                    f"requested from the generator, or still running after {S.CPU_LIMIT} s of CPU time)")
        if o["result"] != exp:
            return f"rank {r}: expected {exp}, got {o['result']}"
    if exp != "ok":
        return None
    for r, o in enumerate(ranks):
        if o["alien"]:
            return f"rank {r}: a draw was made without the epoch's generator, or with replacement=True"
        for d, kind in zip(o["draws"], o["kinds"]):
            if len(d[1]) != d[0] or (kind == "randperm" and not S.is_perm(d[1], d[0])) \
                    or (kind == "multinomial" and len(set(d[1])) != len(d[1])):
                return f"torch contract broken: {kind}({d[0]}) returned {d[1]}"
    L = ranks[0]["len"]
    for r, o in enumerate(ranks):
        if o["len"] != L:
            return f"len(sampler) differs between ranks: rank 0 {L}, rank {r} {o['len']}"
        if len(o["stream"]) != L:
            return f"rank {r} yields {len(o['stream'])} indices but len(sampler) = {L}"
    n = len(case["classes"]) if k != "weighted" else case["n"]
    for r, o in enumerate(ranks):
        bad = [x for x in o["stream"] if not 0 <= x < n]
        if bad:
            return f"rank {r} yields indices {bad} outside the dataset of {n} samples"
    e = case["epoch"] or 0
    if obs["again"] != ranks[-1]["stream"]:
        return "a second sampler with equal (seed, epoch, rank) yields another stream"
    te = obs["two_epochs"]
    if not isinstance(te, list) or te[0] != ranks[-1]["stream"] or te[1] != obs["next_last"]:
        return (f"one sampler object iterated for epochs {e}, {e + 1} yields {te}, fresh samplers yield "
                f"{ranks[-1]['stream']} and {obs['next_last']}")
    if obs["next"]["result"] != "ok" or len(obs["next"]["stream"]) != L:
        return f"epoch {e + 1} yields {len(obs['next']['stream'])} indices ({obs['next']['result']}), epoch {e} {L}"
    if obs["next"]["seeds"] == ranks[0]["seeds"]:
        return "set_epoch(epoch + 1) does not change the seed of the generator"

    if obs.get("hist"):
        msg = oracle_history(case, obs, L)
        if msg:
            return msg
    if k == "semi":
        return oracle_semi(case, obs, L)
    G = obs["G"]
    if obs["G_result"] != "ok":
        return "world-size-1 sampler failed: " + str(obs["G_result"])
    if obs["G_draws"] != ranks[0]["draws"]:
        return (f"the epoch's draws depend on the world size: W=1 requested {[d[0] for d in obs['G_draws']]}, "
                f"W={W} requested {[d[0] for d in ranks[0]['draws']]}")
    for r, o in enumerate(ranks):
        if o["draws"] != ranks[0]["draws"]:
            return f"rank {r} drew differently from rank 0 in the same epoch"
        if o["seeds"] != [case["seed"] + e]:
            return f"rank {r} seeds its generator with {o['seeds']}, not [seed + epoch] = [{case['seed'] + e}]"
    merged = S.interleave([o["stream"] for o in ranks])
    if k == "cb":
        return oracle_cb(case, obs, L, G, merged)
    return oracle_weighted(case, obs, L, G, merged)


def oracle_history(case, obs, L):
    """one sampler object: every list(sampler) call has len(sampler) entries and shows what a fresh sampler of that
    (seed, epoch, rank) shows; calls under equal epochs show equal streams"""
    hist = [r for r in obs["hist"] if r is not None]
    eps = iter_epochs(case["ops"])
    hr = case.get("ops_rank", 0)
    what = f"one sampler object (rank {hr}) driven through {case['ops']}"
    for k, (ep, r) in enumerate(zip(eps, hist)):
        if r["result"] == "RUNAWAY":
            return f"{what}: list(sampler) call {k} does not return"
        if r["result"] != "ok":
            return f"{what}: list(sampler) call {k} (epoch {ep}) fails with {r['result']}"
        if r["alien"]:
            return f"{what}: call {k} draws without the epoch's generator"
        if r["len"] != L or len(r["stream"]) != L:
            return f"{what}: call {k} (epoch {ep}) has len {r['len']} and yields {len(r['stream'])} indices, expected {L}"
        fr = obs["fresh"][str(ep)]
        if fr["result"] != "ok" or fr["stream"] != r["stream"]:
            return (f"{what}: call {k} under epoch {ep} yields {r['stream']}, a fresh sampler with equal "
                    f"(seed, epoch, rank) yields {fr['stream']} ({fr['result']})")
        if case["kind"] != "semi" and r["seeds"] != [case["seed"] + ep]:
            return f"{what}: call {k} seeds its generator with {r['seeds']}, not [seed + epoch] = [{case['seed'] + ep}]"
        if case["kind"] == "semi" and r["seeds"][:2] != [hr, ep]:
            return f"{what}: call {k} seeds its generators with {r['seeds']}, expected [rank, epoch, ...] = [{hr}, {ep}, ...]"
    for a in range(len(hist)):
        for b in range(a + 1, len(hist)):
            if eps[a] == eps[b] and hist[a]["stream"] != hist[b]["stream"]:
                return (f"{what}: calls {a} and {b} are both under epoch {eps[a]} but yield {hist[a]['stream']} "
                        f"and {hist[b]['stream']}")
    return None


def oracle_cb(case, obs, L, G, merged):
    W = case["W"]
    classes = case["classes"]
    Cn = max(2, case["dim"])
    sizes = Counter(classes)
    spc = case["spc"] or max(sizes.values())
    E = Cn * spc
    if L != E // W:
        return f"len(sampler) = {L}, expected num_classes * samples_per_class // W = {Cn} * {spc} // {W} = {E // W}"
    if len(G) != E:
        return f"the global draw (world size 1) has {len(G)} indices, expected {E}"
    per_class = Counter(classes[x] for x in G)
    for c in range(Cn):
        if per_class[c] != spc:
            return f"class {c} occurs {per_class[c]} times in the epoch, samples_per_class = {spc} (global draw {G})"
    occ = Counter(G)
    for x, c in enumerate(classes):
        kk = sizes[c]
        if not spc // kk <= occ[x] <= -(-spc // kk):
            return (f"sample {x} (class {c}, {kk} samples) occurs {occ[x]} times; even reuse means "
                    f"{spc // kk}..{-(-spc // kk)} (spc = {spc})")
    if merged != G[:W * L]:
        return f"interleaved rank streams {merged} are not the prefix of length {W * L} of the global draw {G}"
    # the ranks together, without reference to the world-size-1 run
    pm = Counter(classes[x] for x in merged)
    for c in range(Cn):
        if pm[c] > spc or pm[c] < spc - E % W:
            return (f"all ranks together hold {pm[c]} indices of class {c}, samples_per_class = {spc} "
                    f"(W = {W}, {E - W * L} trailing entries cut off: between {spc - E % W} and {spc} expected)")
    if sum(pm[c] for c in range(Cn)) != W * L or sum(spc - pm[c] for c in range(Cn)) != E % W:
        return f"all ranks together hold {sum(pm.values())} indices, expected {W * L} = {E} - {E % W}"
    if not case["shuffle"]:
        want = []
        for c in range(Cn):
            pool = [i for i, cc in enumerate(classes) if cc == c]
            want += (pool * (spc // len(pool) + 1))[:spc]
        if G != want:
            return f"shuffle=False: epoch is {G}, expected the pools repeated in order: {want}"
    return None


def oracle_semi(case, obs, L):
    W, classes = case["W"], case["classes"]
    Ln, Un = case["L"], case["U"]
    lab = [i for i, c in enumerate(classes) if c != -1]
    unl = [i for i, c in enumerate(classes) if c == -1]
    chunks = {"labeled": len(lab) // Ln, "unlabeled": len(unl) // Un, "all": len(classes) // (Ln + Un)}[case["mode"]]
    if L != chunks * (Ln + Un) // W:
        return (f"len(sampler) = {L}; length_mode={case['mode']} with {len(lab)} labeled / {len(unl)} unlabeled samples, "
                f"L={Ln}, U={Un}, W={W} means {chunks} chunks * {Ln + Un} // {W} = {chunks * (Ln + Un) // W}")
    e = case["epoch"] or 0
    gen_seeds = []
    for r, o in enumerate(obs["ranks"]):
        s = o["stream"]
        for i, x in enumerate(s):
            want_lab = i % (Ln + Un) < Ln
            if (classes[x] != -1) != want_lab:
                return (f"rank {r}: position {i} holds sample {x} (class {classes[x]}), expected "
                        f"{'a labeled' if want_lab else 'an unlabeled'} one (L={Ln}, U={Un}); stream {s}")
        msg = check_blocks("labeled", lab, [x for x in s if classes[x] != -1]) \
            or check_blocks("unlabeled", unl, [x for x in s if classes[x] == -1])
        if msg:
            return f"rank {r}: {msg}; stream {s}"
        n_lab = sum(1 for x in s if classes[x] != -1)
        cc = Ln + Un
        if n_lab != (L // cc) * Ln + min(L % cc, Ln):
            return (f"rank {r}: {n_lab} labeled picks in a stream of {L} indices, the L/U pattern means "
                    f"{(L // cc) * Ln + min(L % cc, Ln)}")
        if case["mode"] in ("labeled", "unlabeled"):
            want_l = case["mode"] == "labeled"
            pool, per = (lab, Ln) if want_l else (unl, Un)
            picks = [x for x in s if (classes[x] != -1) == want_l]
            q = len(pool) // per
            if len(set(picks)) != len(picks) or not (q // W) * per <= len(picks) <= -(-q // W) * per \
                    or len(picks) > len(pool) or (W == 1 and len(pool) - per >= len(picks)):
                return (f"rank {r}, length_mode={case['mode']}, W={W}: a rank must visit every {case['mode']} sample at "
                        f"most once and make {(q // W) * per}..{-(-q // W) * per} picks from the {len(pool)} "
                        f"{case['mode']} samples ({q} chunks in the epoch); visited {sorted(picks)}")
        rnd = [v for _, v in o["random_"]]
        if len(o["seeds"]) != 3 or len(rnd) != 2 or o["seeds"] != [r, e, case["seed"] + rnd[0] + rnd[1]]:
            return (f"rank {r}: generators seeded with {o['seeds']} (random_ values {rnd}); expected "
                    f"[rank, epoch, seed + random_(rank) + random_(epoch)]")
        if any(d[0] not in (len(lab), len(unl)) for d in o["draws"]):
            return f"rank {r}: permutation sizes {[d[0] for d in o['draws']]} are not pool sizes"
        gen_seeds.append(o["seeds"][2])
    if len(set(gen_seeds)) != len(gen_seeds):
        return f"ranks share a generator seed in the same epoch: {gen_seeds}"
    many = [s[2] for s in obs["many_rank_seeds"] if len(s) == 3]
    if len(many) != 64 or len(set(many)) != 64:
        return f"ranks 0..63 do not get 64 distinct generator seeds at epoch 0: {many}"
    return None


def oracle_weighted(case, obs, L, G, merged):
    W, n = case["W"], case["n"]
    E = n if case["size"] is None else case["size"]
    if L != E // W:
        return f"len(sampler) = {L}, expected {'len(dataset)' if case['size'] is None else 'size'} // W = {E // W}"
    if len(G) != E:
        return f"the global draw (world size 1) has {len(G)} indices, expected {E}"
    if len(set(G)) != len(G):
        return f"an index is repeated within the epoch: {G}"
    if len(set(merged)) != len(merged):
        return f"an index is repeated within the epoch (all ranks together): {merged}"
    for r, o in enumerate(obs["ranks"]):
        if len(set(o["stream"])) != len(o["stream"]):
            return f"rank {r} repeats an index within the epoch: {o['stream']}"
    if merged != G[:W * L]:
        return f"interleaved rank streams {merged} are not the prefix of length {W * L} of the global draw {G}"
    zero = [i for i, w in enumerate(case["weights"]) if w == 0.0]
    if set(zero) & set(G):
        return f"samples with weight 0 were drawn: {sorted(set(zero) & set(G))}"
    return None


# ---------------------------------------------------------------------------
# Coq rendering
# ---------------------------------------------------------------------------
MODES = {"labeled": "MLabeled", "unlabeled": "MUnlabeled", "all": "MAll"}


def coq_cfg(case):
    k = case["kind"]
    if k == "cb":
        return C("KCB", S.coq_cb(case))
    if k == "weighted":
        return C("KW", Rec(w_n=Nat(case["n"]), w_size=Opt(None if case["size"] is None else Nat(case["size"])),
                           w_seed=case["seed"], w_epoch=case["epoch"] or 0, w_W=Nat(case["W"])))
    return C("KSemi", Rec(se_classes=[int(c) for c in case["classes"]], se_L=Nat(case["L"]), se_U=Nat(case["U"]),
                          se_mode=Raw(MODES.get(case["mode"], "MOther")), se_seed=case["seed"],
                          se_epoch=case["epoch"] or 0, se_W=Nat(case["W"])))


def coq_rank(r):
    return (Nat(S.CODE[r["result"]]), S.nats(r["stream"]), Nat(r["len"] or 0), [int(s) for s in r["seeds"]],
            [(Nat(d[0]), S.nats(d[1])) for d in r["draws"]], [int(v) for _, v in r["random_"]])


def coq_applicable(case, obs):
    if "harness_exception" in obs:
        return False
    if case["kind"] == "semi" and (case["L"] < 0 or case["U"] < 0):
        return False
    if len(obs["ranks"]) != case["W"]:      # a rank ran away: reported by the oracle, nothing to compare
        return False
    if any(r is not None and r["result"] not in S.CODE for r in (obs.get("hist") or [])):
        return False
    return all(o["result"] in S.CODE for o in obs["ranks"])


def coq_case(case, obs):
    hs = []
    if obs.get("hist"):
        for op, r in zip(case["ops"], obs["hist"]):
            hs.append(C("HSet", int(op[1])) if op[0] == "set" else C("HIter", Raw(coq(coq_rank(r)))))
    hist = (Nat(case.get("ops_rank", 0)), Raw("[" + "; ".join(str(h) for h in hs) + "]"))
    pgs = PG.coq_pgs(case["pg"], obs["pg"], coq_rank, S.CODE) if case.get("pg") and obs.get("pg") else []
    if case.get("relabel") and obs.get("relabel"):
        # the samplers built on the relabelled object: the model knows the CURRENT labels only
        for r, rec in enumerate(obs["relabel"]["ranks"]):
            if rec["result"] in S.CODE and rec["result"] != "RUNAWAY":
                pgs.append(Raw(coq((Raw("[]"), Opt(Nat(r)), Opt(Nat(case["W"])), int(case["epoch"] or 0),
                                    Raw(coq(coq_rank(rec)))))))
    return coq((coq_cfg(case), [coq_rank(o) for o in obs["ranks"]], S.nats(obs["G"]), hist, pgs))


def features(case, obs):
    k = case["kind"]
    yield "kind=" + k
    if k in ("cb", "semi"):
        yield "labels:representation=%s" % ("getitem_class only" if case.get("getall") is False else case.get("rep", "list"))
        if case.get("rep", "list") != "list":
            lo, hi = S.INT_RANGE[case["rep"].split(":")[1]]
            Cn = max(2, case["dim"])
            yield "labels:%s:n*(C-1) beyond the dtype=%s" % (k, len(case["classes"]) * (Cn - 1) > hi)
        if case.get("relabel"):
            rl = case["relabel"]
            yield "relabel:getall_class=%s,A=%s,same length=%s" % (case.get("getall", True), rl["A"],
                                                                   len(rl["before"]) == len(case["classes"]))
            if obs.get("relabel"):
                yield "relabel:A result=" + obs["relabel"]["A"].split(":")[0]
    if case.get("ops"):
        eps = iter_epochs(case["ops"])
        yield "ops:iterated again without set_epoch=%s" % any(
            a[0] == "iter" and b[0] == "iter" for a, b in zip(case["ops"], case["ops"][1:]))
        yield "ops:returns to an earlier epoch=%s" % any(
            eps[i] == eps[j] and any(eps[m] != eps[i] for m in range(i, j)) for i in range(len(eps)) for j in range(i, len(eps)))
    if case.get("pg") and obs.get("pg"):
        for f in PG.features_pg(case["pg"], obs["pg"]):
            yield f
    if obs.get("swap"):
        w = obs["swap"]
        yield ("remark:semi (rank 1, epoch 2) and (rank 2, epoch 1) seed alike (%s / %s) and emit the same stream=%s"
               % (w["seed_rank1_epoch2"], w["seed_rank2_epoch1"], w["same_stream"]))
    yield "W=%d" % case["W"]
    yield "epoch=%s" % case["epoch"]
    if "ranks" in obs:
        yield k + ":result=" + obs["ranks"][0]["result"].split(":")[0]
    if k == "cb":
        yield "cb:spc=%s" % case["spc"]
        yield "cb:shuffle=%s" % case["shuffle"]
        yield "cb:has_unlabeled=%s" % (-1 in case["classes"])
        Cn = max(2, case["dim"])
        sizes = Counter(case["classes"])
        spc = case["spc"] or max(sizes.values())
        yield "cb:W_divides_E=%s" % ((Cn * spc) % case["W"] == 0)
        if set(case["classes"]) == set(range(Cn)):
            yield "cb:some_pool<spc=%s" % any(v < spc for v in sizes.values())
    if k == "semi":
        yield "semi:mode=" + case["mode"]
        yield "semi:L=%d,U=%d" % (case["L"], case["U"])
        if "ranks" in obs and obs["ranks"][0]["result"] == "ok":
            s = obs["ranks"][0]["stream"]
            nl = sum(1 for c in case["classes"] if c != -1)
            nu = len(case["classes"]) - nl
            pl = sum(1 for x in s if case["classes"][x] != -1)
            yield "semi:labeled_pool_wraps=%s" % (pl > nl)
            yield "semi:unlabeled_pool_wraps=%s" % (len(s) - pl > nu)
            if len(case["classes"]) >= 400:
                yield "semi:large:labeled_pool_wraps=%d,unlabeled_pool_wraps=%d" % (pl // nl, (len(s) - pl) // nu)
    if k == "weighted":
        yield "weighted:size=%s" % ("None" if case["size"] is None else "given")
        yield "weighted:zero_weights=%s" % (0.0 in case["weights"])


def nontrivial_key(case, obs):
    if case.get("pg") and obs.get("pg") and any(rec["stream"] for _, _, _, _, rec in PG.builds(case["pg"], obs["pg"])):
        return ("pg", case["kind"], json.dumps(case["pg"], sort_keys=True))
    if "ranks" not in obs or obs["ranks"][0]["result"] != "ok" or not any(o["stream"] for o in obs["ranks"]):
        return None
    k = case["kind"]
    n = case["n"] if k == "weighted" else len(case["classes"])
    extra = {"cb": (case.get("spc"), case.get("shuffle")), "semi": (case.get("L"), case.get("U"), case.get("mode")),
             "weighted": (case.get("size"),)}[k]
    return (k, n, case["W"], case["epoch"]) + extra
