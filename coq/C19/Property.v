(* C19 — the in-memory cache SharedDictDataset is transparent for every access history,
   also when several processes share the cache.
   Statements only; proofs are in Proofs.v.  All theorems speak about the model of the
   REPAIRED code (fixes/C19_clear_race.patch: [fixed] = true; fixes/C19_tensor_alias.patch:
   [copyfix] = true, the second boolean argument of run / seq_exec) unless they are stated for
   both ([forall fixed] / [forall copyfix]); the [_prefix_refuted] theorems document the code BEFORE
   the respective repair.
   base : Z -> option Z is ANY wrapped dataset (None = it raises), tf/draws ANY (stateful,
   random) post-cache transform, working in place or not ([inplace]), the samples are transported
   by the Manager by value or by reference ([byref]: torch tensors = shared memory), progs ANY
   number of processes with ANY programs of get / dispose / len / in-place modification of the
   sample last received, sched ANY schedule (list of process ids, unbounded). *)
From Coq Require Import String ZArith List Bool Arith.
Import ListNotations.
From KD Require Import C19.Model C19.Attr C19.Graph C19.Spec C19.Proofs C19.ProofsAttr C19.ProofsGraph.
Open Scope Z_scope.

(* ------------------------------------------------------------- sequential histories *)
(* Every sequential history over any number n of holders of the cached dataset produces
   exactly the specified events: every access returns transform(base[i]) with its own
   fresh draw (or the wrapped dataset's exception) - no matter what transforms and consumers did, in
   place, to the samples of earlier accesses -, the wrapped dataset is asked exactly
   when i was not fetched since the last clear, len is the wrapped dataset's len. *)
Theorem seq_transparent :
  forall fixed byref inplace base blen tf draws n hist,
    pids_below n hist ->
    log (seq_exec fixed true byref inplace base blen tf draws n hist) = spec_seq base blen tf draws [] (fun _ => O) hist.
Proof. exact seq_transparent_l. Qed.
Print Assumptions seq_transparent.

Theorem seq_at_most_one_load_between_clears :
  forall fixed byref inplace base blen tf draws n hist,
    pids_below n hist ->
    loads_once base [] (log (seq_exec fixed true byref inplace base blen tf draws n hist)).
Proof. exact seq_at_most_one_load_l. Qed.
Print Assumptions seq_at_most_one_load_between_clears.

(* after a clear the first access of i loads again: the access contributes exactly a load
   followed by the return of the freshly loaded, transformed sample *)
Theorem reload_after_clear :
  forall fixed byref inplace base blen tf draws n h1 p h2 q i,
    pids_below n (h1 ++ (p, CClear) :: h2 ++ [(q, CGet i)]) ->
    no_get i h2 ->
    exists k,
      log (seq_exec fixed true byref inplace base blen tf draws n (h1 ++ (p, CClear) :: h2 ++ [(q, CGet i)])) =
      log (seq_exec fixed true byref inplace base blen tf draws n (h1 ++ (p, CClear) :: h2))
      ++ [ELoad q i; ERet q i k (expected base tf (draws q k) i)].
Proof. exact reload_after_clear_l. Qed.
Print Assumptions reload_after_clear.

(* --------------------------------------------- any number of processes, any schedule *)
(* invariant: the content of the cache ⊆ graph(base) - nothing a transform or a consumer writes ever
   reaches a cached object.  (h0, d0) is any initial store and cache whose entries hold base's samples. *)
Theorem conc_dict_subset_base :
  forall fixed byref inplace base blen tf draws h0 d0 progs sched,
    cache_init_ok base h0 d0 ->
    let s := run fixed true byref inplace base blen tf draws sched (init h0 d0 progs) in
    dict_ok base (dict_content (hp s) (sd s)).
Proof. exact conc_dict_subset_base_l. Qed.
Print Assumptions conc_dict_subset_base.

(* no process ever observes a value other than transform(base[i]) (redundant loads are
   harmless) — true of the reader before and after the clear-race repair *)
Theorem conc_values_equal_base :
  forall fixed byref inplace base blen tf draws h0 d0 progs sched,
    cache_init_ok base h0 d0 ->
    values_equal_base base tf draws (log (run fixed true byref inplace base blen tf draws sched (init h0 d0 progs))).
Proof. exact conc_values_equal_base_l. Qed.
Print Assumptions conc_values_equal_base.

(* the repaired reader never lets a KeyError escape, whatever the other processes do *)
Theorem conc_no_error :
  forall byref inplace base blen tf draws h0 d0 progs sched,
    cache_init_ok base h0 d0 ->
    no_error (log (run true true byref inplace base blen tf draws sched (init h0 d0 progs))).
Proof. exact conc_no_error_l. Qed.
Print Assumptions conc_no_error.

(* both together: every access of every process returns what the wrapped dataset +
   transform would have returned *)
Theorem conc_transparent :
  forall byref inplace base blen tf draws h0 d0 progs sched,
    cache_init_ok base h0 d0 ->
    transparent base tf draws (log (run true true byref inplace base blen tf draws sched (init h0 d0 progs))).
Proof. exact conc_transparent_l. Qed.
Print Assumptions conc_transparent.

(* the transform is applied exactly once per successful access (call numbers 0,1,2,... per process) *)
Theorem conc_transform_every_access :
  forall fixed copyfix byref inplace base blen tf draws h0 d0 progs sched,
    transform_every_access (log (run fixed copyfix byref inplace base blen tf draws sched (init h0 d0 progs))).
Proof. exact conc_transform_every_access_l. Qed.
Print Assumptions conc_transform_every_access.

(* progress: a process that is scheduled 4 times per command of its program has finished its
   program, whatever the other processes did in between (an access is at most membership
   test, failed lookup, load, store: the KeyError fallback cannot loop) *)
Theorem conc_progress :
  forall fixed copyfix byref inplace base blen tf draws h0 d0 progs sched p prog,
    nth_error progs p = Some prog ->
    (4 * length prog <= count_occ Nat.eq_dec sched p)%nat ->
    exists pr, nth_error (procs (run fixed copyfix byref inplace base blen tf draws sched (init h0 d0 progs))) p = Some pr
               /\ pc pr = PStart /\ todo pr = [].
Proof. exact conc_progress_l. Qed.
Print Assumptions conc_progress.

(* bounded overtaking: from ANY state s (reachable or not) in which process p stands between two commands
   with command c pending, c has returned as soon as p itself has been scheduled 4 times - however often
   the other processes are scheduled in between and whatever they do (clear the cache, store, ...).
   No reader can be made to wait by the others. *)
Theorem conc_bounded_overtaking :
  forall fixed copyfix byref inplace base blen tf draws s sched p pr c r,
    nth_error (procs s) p = Some pr -> pc pr = PStart -> todo pr = c :: r ->
    (4 <= count_occ Nat.eq_dec sched p)%nat ->
    exists pr', nth_error (procs (run fixed copyfix byref inplace base blen tf draws sched s)) p = Some pr'
                /\ (length (todo pr') <= length r)%nat.
Proof. exact conc_bounded_overtaking_l. Qed.
Print Assumptions conc_bounded_overtaking.

(* DOCUMENTATION OF THE REPAIR fixes/C19_clear_race.patch (reader with [fixed] = false):
   membership test, concurrent dispose, lookup -> KeyError out of cached[3]. *)
Theorem conc_no_error_prefix_refuted :
  exists (progs : list (list cmd)) (sched : list nat),
    In (ERet 0 3 1 RKeyError)
       (log (run false true false false (fun i => Some (10 * i)) 5 (fun d v => d + v) (fun _ _ => 0) sched (init [] [] progs))).
Proof. exact conc_no_error_prefix_refuted_l. Qed.
Print Assumptions conc_no_error_prefix_refuted.

(* DOCUMENTATION OF THE REPAIR fixes/C19_tensor_alias.patch (code with [copyfix] = false, by-reference
   transport = torch tensors, in-place transform x -> x + 100): one process reads index 1 twice; the second
   access returns 210 instead of 110, the history is not the specified one and the cache no longer holds
   the wrapped dataset's sample. *)
Theorem alias_inplace_transform_prefix_refuted :
  let base := fun i => Some (10 * i) in
  let tf := fun d v : Z => d + v in
  let draws := fun (_ _ : nat) => 100 in
  let hist := [(0, CGet 1); (0, CGet 1)]%nat in
  let s := seq_exec true false true true base 5 tf draws 1 hist in
  (pids_below 1 hist /\
   log s = [ELoad 0 1; ERet 0 1 0 (RVal 110); ERet 0 1 1 (RVal 210)] /\
   log s <> spec_seq base 5 tf draws [] (fun _ => O) hist /\
   ~ dict_ok base (dict_content (hp s) (sd s)))%type.
Proof. exact alias_inplace_transform_prefix_refuted_l. Qed.
Print Assumptions alias_inplace_transform_prefix_refuted.

(* same code, no transform: process 0 adds 5 in place to the sample it received, process 1 then reads 15 *)
Theorem alias_consumer_write_prefix_refuted :
  let base := fun i => Some (10 * i) in
  let tf := fun d v : Z => v in
  let draws := fun (_ _ : nat) => 0 in
  let progs := [[CGet 1; CMut 5]; [CGet 1]] in
  let sched := [0; 0; 0; 0; 1; 1]%nat in
  log (run true false true true base 5 tf draws sched (init [] [] progs)) =
  [ELoad 0 1; ERet 0 1 0 (RVal 10); EMut 0; ERet 1 1 0 (RVal 15)].
Proof. exact alias_consumer_write_prefix_refuted_l. Qed.
Print Assumptions alias_consumer_write_prefix_refuted.

(* ------------------------------------------- who answers getattr(cached, name) (Attr.v) *)
(* The access model above takes for granted that cached[i] uses the cache layer's own `transform`, `dataset`,
   `shared_dict`, and that whoever fetches from the cached dataset reaches CachedDataset.__getitem__.  All of these are
   attribute lookups, and __getattr__ forwards unknown names to the wrapped dataset.  [inh] = the names torch's Dataset /
   object answer (any list), [bh] = the names the wrapped dataset answers (ANY predicate on strings: the wrapped dataset
   may carry every name the cache layer uses).  [gf] = true is the class with fixes/C19_getitems_bypass.patch. *)

(* no name the cache layer sets in __init__ or defines in its class bodies is ever answered by the wrapped dataset *)
Theorem cache_layer_names_never_forwarded :
  forall gf inh bh n, In n (inst_shared ++ cls_shared gf)%list -> resolve (shared_layer gf) inh bh n = Own.
Proof. exact cache_names_own_l. Qed.
Print Assumptions cache_layer_names_never_forwarded.

(* the transform CachedDataset.__getitem__ applies is the constructor's post-cache transform (None = none) - never the
   `transform` attribute of the wrapped dataset, which already ran inside wrapped[i] *)
Theorem transform_is_post_cache_transform :
  forall gf inh bh, getitem_transform (shared_layer gf) inh bh = TPost.
Proof. exact transform_is_post_cache_l. Qed.
Print Assumptions transform_is_post_cache_transform.

(* ... and this rests on __init__ ALWAYS creating the instance attribute: any layer that has `dataset` but no `transform`
   of its own applies the wrapped dataset's transform a second time as soon as the wrapped dataset has one *)
Theorem transform_slot_needed :
  forall L inh bh,
    ~ In "transform"%string (l_inst L) -> ~ In "transform"%string (l_cls L) -> ~ In "transform"%string inh ->
    In "dataset"%string (l_inst L) -> bh "transform"%string = true ->
    getitem_transform L inh bh = TWrapped.
Proof. exact transform_slot_needed_l. Qed.
Print Assumptions transform_slot_needed.

(* every other name is still delegated to the wrapped dataset (the repair does not cut delegation) *)
Theorem delegation_kept :
  forall gf inh bh n,
    ~ In n (inst_shared ++ cls_shared gf)%list -> ~ In n inh ->
    resolve (shared_layer gf) inh bh n = if bh n then Fwd else Missing.
Proof. exact delegation_kept_l. Qed.
Print Assumptions delegation_kept.

(* copy.copy / pickle.loads probe attributes of an instance whose __dict__ is still empty: never forwarded (no recursion) *)
Theorem blank_instance_never_forwards :
  forall gf inh bh n, ~ In "dataset"%string inh -> resolve (blank_layer gf) inh bh n <> Fwd.
Proof. exact blank_never_forwards_l. Qed.
Print Assumptions blank_instance_never_forwards.

(* torch's DataLoader fetcher (Attr.v fetch_route): with the repaired class every batch is fetched through the cache,
   whatever the wrapped dataset defines - and the accesses of any list of batches are a sequential history, so they
   produce exactly the specified events (transform on every sample, every index loaded at most once between clears) *)
Theorem loader_transparent :
  forall inh bh fixed byref inplace base blen tf draws n p batches,
    (p < n)%nat ->
    fetch_route (shared_layer true) inh bh = ViaCache /\
    log (seq_exec fixed true byref inplace base blen tf draws n (loader_hist p batches))
    = spec_seq base blen tf draws [] (fun _ => O) (loader_hist p batches).
Proof. exact loader_transparent_l. Qed.
Print Assumptions loader_transparent.

(* DOCUMENTATION OF THE REPAIR fixes/C19_getitems_bypass.patch: the class body without __getitems__ over ANY wrapped
   dataset with a usable __getitems__ (torch Subset, KD datasets, ...): batches come from the wrapped dataset, neither
   cache nor post-cache transform are involved *)
Theorem loader_bypass_prefix_refuted :
  forall inh bh, ~ In "__getitems__"%string inh -> bh "__getitems__"%string = true ->
                 fetch_route (shared_layer false) inh bh = Bypass.
Proof. exact loader_bypass_prefix_l. Qed.
Print Assumptions loader_bypass_prefix_refuted.

(* ------------------------------------------------ samples that are object graphs (Graph.v) *)
(* Model.v lets one heap cell stand for a sample.  For a sample that is ANY tree of containers and objects with tensors
   at the leaves (shape), h ANY heap, ws ANY sequence of in-place writes to tensors of the returned copy: the copy reads
   like the sample, and every sample that existed before (the cached entry, what other holders received) still reads
   as before *)
Theorem deepcopy_private :
  forall h sample ws other,
    below (length h) sample -> below (length h) other ->
    incl (targets ws) (leaves (snd (dcopy h sample))) ->
    value (fst (dcopy h sample)) (snd (dcopy h sample)) = value h sample /\
    value (writes ws (fst (dcopy h sample))) other = value h other.
Proof. exact deepcopy_private_l. Qed.
Print Assumptions deepcopy_private.

(* the next access, after those writes, again gets a copy that reads like the sample *)
Theorem deepcopy_again :
  forall h sample ws,
    below (length h) sample ->
    incl (targets ws) (leaves (snd (dcopy h sample))) ->
    let h1 := writes ws (fst (dcopy h sample)) in
    value (fst (dcopy h1 sample)) (snd (dcopy h1 sample)) = value h sample.
Proof. exact deepcopy_again_l. Qed.
Print Assumptions deepcopy_again.

(* a copy that clones tensors, rebuilds the builtin containers and treats every other object as an atom ([pcopy]) is
   deepcopy exactly on the samples without such objects ... *)
Theorem pcopy_is_dcopy_without_objects : forall s h, no_opaque s = true -> pcopy h s = dcopy h s.
Proof. exact pcopy_is_dcopy_without_objects_l. Qed.
Print Assumptions pcopy_is_dcopy_without_objects.

(* ... and hands out the cached tensor itself for a tuple holding an object holding a tensor: one write through the
   "copy" and the cached sample reads differently *)
Theorem object_as_atom_copy_aliases :
  let h := [5] in
  let s := SNode false [SNode true [SLeaf 0]] in
  let h' := fst (pcopy h s) in
  let s' := snd (pcopy h s) in
  value h' s' = value h s /\ incl [0%nat] (leaves s') /\
  value (writes [(0%nat, 105)] h') s <> value h s.
Proof. exact object_as_atom_copy_aliases_l. Qed.
Print Assumptions object_as_atom_copy_aliases.

(* ------------------------------------------------------------------- non-vacuity *)
Definition ex_base : Z -> option Z := fun i => if (0 <=? i) && (i <? 4) then Some (10 * i) else None.
Definition ex_tf : Z -> Z -> Z := fun d v => 1000 * d + v.
Definition ex_draws : nat -> nat -> Z := fun p k => Z.of_nat (10 * p + k).

(* premises of the sequential theorems are satisfiable and the history is not trivial: by-reference
   transport, in-place transform, a consumer write in between - all accesses as specified *)
Example ex_seq :
  pids_below 2 [(0, CGet 1); (0, CMut 7); (1, CGet 1); (0, CGet 7); (1, CClear); (1, CLen); (0, CGet 1)]%nat /\
  log (seq_exec true true true true ex_base 4 ex_tf ex_draws 2
         [(0, CGet 1); (0, CMut 7); (1, CGet 1); (0, CGet 7); (1, CClear); (1, CLen); (0, CGet 1)]%nat) =
  [ELoad 0 1; ERet 0 1 0 (RVal 10); EMut 0; ERet 1 1 0 (RVal 10010); ELoad 0 7; ERet 0 7 1 RBaseError;
   EClear 1; ELen 1 4; ELoad 0 1; ERet 0 1 1 (RVal 1010)].
Proof. split; [repeat constructor | vm_compute; reflexivity]. Qed.

Example ex_reload_premises :
  pids_below 2 ([(0, CGet 1)] ++ (1, CClear) :: [(1, CGet 2)] ++ [(0, CGet 1)])%nat /\ no_get 1 [(1, CGet 2)]%nat.
Proof.
  split; [repeat constructor|]. intros p [H|[]]. inversion H.
Qed.

Example ex_cache_init_ok : cache_init_ok ex_base [30; 10] [(1, 1%nat); (3, 0%nat)].
Proof. repeat constructor. Qed.

(* "concurrent readers may load redundantly": two readers both miss and both load index 2 *)
Example ex_redundant_load :
  log (run true true true true ex_base 4 ex_tf ex_draws [0; 1; 0; 1; 0; 1]%nat (init [] [] [[CGet 2]; [CGet 2]])) =
  [ELoad 0 2; ELoad 1 2; ERet 0 2 0 (RVal 20); ERet 1 2 0 (RVal 10020)].
Proof. vm_compute. reflexivity. Qed.

(* the repaired reader on the schedule that broke the old one: it loads again *)
Example ex_fixed_reader_reloads :
  log (run true true false false ex_base 4 ex_tf ex_draws [0; 0; 0; 0; 1; 0; 0; 0]%nat (init [] [] [[CGet 3; CGet 3]; [CClear]])) =
  [ELoad 0 3; ERet 0 3 0 (RVal 30); EClear 1; ELoad 0 3; ERet 0 3 1 (RVal 1030)].
Proof. vm_compute. reflexivity. Qed.

(* the repaired code on the two histories that the code before fixes/C19_tensor_alias got wrong *)
Example ex_copy_repairs_alias :
  log (seq_exec true true true true (fun i => Some (10 * i)) 5 (fun d v => d + v) (fun _ _ => 100) 1 [(0, CGet 1); (0, CGet 1)]%nat) =
  [ELoad 0 1; ERet 0 1 0 (RVal 110); ERet 0 1 1 (RVal 110)] /\
  log (run true true true true (fun i => Some (10 * i)) 5 (fun d v => v) (fun _ _ => 0) [0; 0; 0; 0; 1; 1]%nat
         (init [] [] [[CGet 1; CMut 5]; [CGet 1]])) =
  [ELoad 0 1; ERet 0 1 0 (RVal 10); EMut 0; ERet 1 1 0 (RVal 10)].
Proof. split; vm_compute; reflexivity. Qed.

(* by-value transport (numpy arrays, lists, ...): the code before fixes/C19_tensor_alias was already
   unaffected on these histories *)
Example ex_by_value_was_fine :
  log (seq_exec true false false true (fun i => Some (10 * i)) 5 (fun d v => d + v) (fun _ _ => 100) 1 [(0, CGet 1); (0, CGet 1)]%nat) =
  [ELoad 0 1; ERet 0 1 0 (RVal 110); ERet 0 1 1 (RVal 110)].
Proof. vm_compute; reflexivity. Qed.

(* bounded overtaking is not vacuous: process 0 stands between commands, process 1 clears (twice) and stores in
   between; after its 4th own step process 0 has its first cached[2] back *)
Example ex_overtaking :
  let s := run true true true true ex_base 4 ex_tf ex_draws [0; 1; 1; 0; 1; 0; 1; 1; 0]%nat
             (init [] [] [[CGet 2; CGet 2]; [CClear; CGet 2; CClear]]) in
  log s = [EClear 1; ELoad 0 2; ELoad 1 2; ERet 0 2 0 (RVal 20); ERet 1 2 0 (RVal 10020); EClear 1].
Proof. vm_compute. reflexivity. Qed.

(* premises of transform_slot_needed / loader_bypass_prefix_refuted / blank_instance_never_forwards are satisfiable: the class
   of the seeded change (no `transform` slot without post-cache transform) over a torchvision-style dataset; a Subset *)
Example ex_transform_slot :
  let L := {| l_inst := ["logger"; "dataset"; "shared_dict"]%string; l_cls := cls_shared true |} in
  (~ In "transform"%string (l_inst L) /\ ~ In "transform"%string (l_cls L) /\ In "dataset"%string (l_inst L)) /\
  getitem_transform L [] (fun n => String.eqb n "transform") = TWrapped /\
  getitem_transform (shared_layer true) [] (fun n => String.eqb n "transform") = TPost.
Proof.
  split; [|split; reflexivity]. split; [|split].
  - simpl. intros [H|[H|[H|[]]]]; discriminate.
  - simpl. intuition discriminate.
  - simpl. tauto.
Qed.

Example ex_subset_routes :
  let subset := fun n => (String.eqb n "__getitems__" || String.eqb n "dataset" || String.eqb n "indices")%bool in
  fetch_route (shared_layer false) ["__class__"; "__add__"]%string subset = Bypass /\
  fetch_route (shared_layer true) ["__class__"; "__add__"]%string subset = ViaCache /\
  resolve (shared_layer true) [] subset "indices" = Fwd /\ resolve (shared_layer true) [] subset "dataset" = Own /\
  resolve (blank_layer true) [] subset "__setstate__" = Missing.
Proof. repeat split. Qed.

(* premises of deepcopy_private are satisfiable and the statement is not trivial: a dataclass of (tensor, list of tensor)
   cached at cells 0,1; the copy lives in cells 2,3; writes to both tensors of the copy *)
Example ex_deepcopy_private :
  let h := [7; 8] in
  let s := SNode true [SLeaf 0; SNode false [SLeaf 1]] in
  below (length h) s /\ dcopy h s = ([7; 8; 7; 8], SNode true [SLeaf 2; SNode false [SLeaf 3]]) /\
  incl (targets [(2%nat, 100); (3%nat, 200)]) (leaves (snd (dcopy h s))) /\
  value (writes [(2%nat, 100); (3%nat, 200)] (fst (dcopy h s))) (snd (dcopy h s)) = VNode true [VLeaf 100; VNode false [VLeaf 200]] /\
  value (writes [(2%nat, 100); (3%nat, 200)] (fst (dcopy h s))) s = VNode true [VLeaf 7; VNode false [VLeaf 8]].
Proof.
  repeat split.
  - repeat constructor.
  - vm_compute. intros a H. exact H.
Qed.
